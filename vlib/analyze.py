# Maps Verus diagnostics on a generated unit file back to (function, contract clause, tags, /repo source line) and
# classifies each failure as property-level or auxiliary (DESIGN.md section 5).
import os, re

TAG_RE = re.compile(r"^\s*//@\s*(prop\(([^)]*)\)|aux)\s*(\S*)")
SRC_RE = re.compile(r"/\*\s*(\d+)\*/")
FN_RE = re.compile(r"^\s*(?:pub(?:\([a-z]+\))?\s+)?(?:open\s+|closed\s+|uninterp\s+|broadcast\s+)*(proof|spec|exec)?\s*(?:axiom\s+)?fn\s+(\w+)")


class LineInfo:
    __slots__ = ("file", "fn", "fn_kind", "fn_src", "in_vc", "vc_kind", "vc_origin", "tag_props", "tag_id", "src_line", "text", "item_fn", "item_tag")

    def __init__(self):
        self.file = None; self.fn = None; self.fn_kind = None; self.fn_src = None; self.in_vc = False; self.vc_kind = None
        self.vc_origin = None; self.tag_props = None; self.tag_id = None; self.src_line = None; self.text = ""
        self.item_fn = None; self.item_tag = None


def scan(path, owns_text=()):
    """returns (list of LineInfo indexed by 1-based line, obligations list)"""
    infos = [None]
    cur_file = None; cur_fn = None; cur_kind = None; cur_src = None
    in_vc = False; vc_kind = None; vc_origin = None; tag_props = None; tag_id = None; src_line = None
    item_fn = None; pending_item_tag = None; item_tag = None
    text_tag = None; text_fn = None
    obligations = []   # dict(id, props, kind, fn, file, line)
    fns = []           # dict(name, kind(body|stub), src, label)
    lemma_tags = []
    for ln, line in enumerate(open(path).read().split("\n"), start=1):
        li = LineInfo()
        s = line.strip()
        if s.startswith("//@file "):
            cur_file = s[len("//@file "):]; item_fn = None; item_tag = None
        elif s.startswith("//@vx-fn-begin "):
            p = s.split()
            cur_fn = p[1]; cur_kind = p[2]
            cur_src = [x[4:] for x in p if x.startswith("src=")][0]
            label = [x[6:] for x in p if x.startswith("label=")]
            fns.append({"name": cur_fn, "kind": cur_kind, "src": cur_src, "label": label[0] if label else "", "line": ln})
            src_line = None
        elif s.startswith("//@vx-fn-end"):
            cur_fn = None; cur_kind = None; cur_src = None
        elif s.startswith("//@vc-begin"):
            in_vc = True; vc_kind = s.split()[1] if len(s.split()) > 1 else "stmt"; tag_props = None; tag_id = None
        elif s.startswith("//@vc-end"):
            in_vc = False; vc_kind = None; tag_props = None; tag_id = None
        elif s.startswith("//@vc "):
            vc_origin = s[len("//@vc "):]
            if "/contracts/" in vc_origin: vc_origin = "contracts/" + vc_origin.split("/contracts/", 1)[1]   # independent of where /verif is checked out
        else:
            m = TAG_RE.match(line)
            if m:
                if m.group(1) == "aux":
                    tag_props = None; tag_id = None
                    if not in_vc: pending_item_tag = None
                else:
                    props = [x.strip() for x in m.group(2).split(",") if x.strip()]
                    tid = m.group(3) or ("%s:%d" % (cur_fn or cur_file, ln))
                    if in_vc:
                        tag_props = props; tag_id = tid
                        obligations.append({"id": tid, "props": props, "kind": vc_kind, "fn": cur_fn, "fn_kind": cur_kind, "origin": vc_origin, "line": ln})
                    elif line.startswith("//@"):
                        pending_item_tag = (props, tid)
                    else:
                        # indented tag outside a spliced block: clause of a trait-method contract in a spec text file
                        text_tag = (props, tid)
                        if cur_file in owns_text:
                            obligations.append({"id": tid, "props": props, "kind": "trait-ensures", "fn": text_fn, "fn_kind": "body", "origin": cur_file, "line": ln})
            elif cur_fn is None and line.startswith("    ") and re.match(r"^\s+fn (\w+)", line):
                text_fn = re.match(r"^\s+fn (\w+)", line).group(1); text_tag = None
            elif cur_fn is None:
                fm = FN_RE.match(line)
                if fm and not line.startswith("        "):
                    item_fn = fm.group(2)
                    item_tag = pending_item_tag
                    if pending_item_tag:
                        obligations.append({"id": pending_item_tag[1], "props": pending_item_tag[0], "kind": "lemma", "fn": item_fn, "fn_kind": "lemma", "origin": cur_file, "line": ln})
                    pending_item_tag = None
        if not in_vc:
            ms = SRC_RE.findall(line)
            if ms and cur_fn:
                src_line = int(ms[0])
        li.file = cur_file; li.fn = cur_fn; li.fn_kind = cur_kind; li.fn_src = cur_src; li.in_vc = in_vc; li.vc_kind = vc_kind
        li.vc_origin = vc_origin; li.tag_props = tag_props; li.tag_id = tag_id; li.src_line = src_line; li.text = line
        if cur_fn is not None or in_vc or s == "}":
            text_tag = None
        if text_tag and cur_fn is None and not in_vc:
            li.tag_props = text_tag[0]; li.tag_id = text_tag[1]
        li.item_fn = item_fn if cur_fn is None else None
        li.item_tag = item_tag if cur_fn is None else None
        infos.append(li)
    return infos, obligations, fns


def _span_in_file(sp, path):
    return os.path.basename(sp.get("file_name", "")) == os.path.basename(path)


def safety_props(unit, fn):
    s = unit.get("safety", {})
    base = fn.split("__")[-1] if fn else fn
    for k in (fn, base, "*"):
        if k in s:
            return s[k]
    return []


def classify(diag, infos, path, unit):
    """returns dict(kind='prop'|'aux'|'canary'|'tool', props, id, fn, src, src_line, msg, gen_line, rendered)"""
    msg = diag.get("message", "")
    spans = diag.get("spans", [])
    prim = [s for s in spans if s.get("is_primary") and _span_in_file(s, path)]
    allin = [s for s in spans if _span_in_file(s, path)]
    out = {"kind": "tool", "props": [], "id": None, "fn": None, "src": None, "src_line": None, "msg": msg, "gen_line": None,
           "rendered": diag.get("rendered", "")[:3000]}
    if not allin:
        return out

    def info_at(sp):
        l = sp["line_start"]
        return infos[l] if 0 < l < len(infos) else None

    # canaries
    for sp in allin:
        li = info_at(sp)
        if li and li.item_fn and li.item_fn.startswith("vx_canary"):
            out.update(kind="canary", id=li.item_fn, gen_line=sp["line_start"])
            return out
        if li and li.text and "fn vx_canary" in li.text:
            m = re.search(r"fn (vx_canary\w*)", li.text)
            out.update(kind="canary", id=m.group(1), gen_line=sp["line_start"])
            return out

    def from_clause(sp):
        li = info_at(sp)
        if li is None:
            return
        out["gen_line"] = sp["line_start"]
        out["fn"] = li.fn or li.item_fn
        out["src"] = li.fn_src
        out["src_line"] = li.src_line
        if li.in_vc and li.tag_props and li.fn_kind == "body":
            out.update(kind="prop", props=list(li.tag_props), id=li.tag_id)
        elif li.in_vc:
            out.update(kind="aux", id="aux:%s:%s" % (li.fn, li.vc_origin))
        elif li.fn and li.fn_kind == "body":
            # a clause located in real code? (should not happen) treat as safety
            out.update(kind="prop", props=safety_props(unit, li.fn), id="safety:%s" % li.fn)
        elif li.item_fn and li.item_tag:
            # postcondition of a tagged pure lemma (code-independent statement of part of a property)
            out.update(kind="prop", props=list(li.item_tag[0]), id=li.item_tag[1], fn=li.item_fn)
        else:
            out.update(kind="aux", id="aux:%s" % (li.item_fn or li.file))

    m = msg.lower()
    if "post-condition of closure" in m or "postcondition of closure" in m:
        # the contract of a closure (spliced `#closure k` section): tagged clause -> property level, else auxiliary
        lab = [s for s in allin if (s.get("label") or "").startswith("failed this postcondition")]
        if lab:
            from_clause(lab[0])
        elif prim:
            from_clause(prim[0])
        return out
    if "postcondition not satisfied" in m:
        lab = [s for s in allin if (s.get("label") or "").startswith("failed this postcondition")]
        if lab:
            lc = info_at(lab[0])
            if lc is not None and not lc.in_vc and lc.fn is None and lc.tag_props:
                # trait-method contract clause (spec text file); the failing body is where the primary span points
                pi = None
                for sp in allin:
                    x = info_at(sp)
                    if x is not None and x.fn and x.fn_kind == "body":
                        pi = x
                if pi is not None:
                    out.update(kind="prop", props=list(lc.tag_props), id=lc.tag_id, fn=pi.fn, src=pi.fn_src, src_line=pi.src_line, gen_line=lab[0]["line_start"])
                    return out
            from_clause(lab[0])
        elif prim:
            from_clause(prim[0])
        return out
    if "invariant not satisfied" in m:
        if prim:
            from_clause(prim[0])
        return out
    if ("precondition not satisfied" in m or "arithmetic underflow/overflow" in m or "division by zero" in m or "bit shift" in m
            or "assertion failed" in m or "unreachable" in m or "index out of bounds" in m or "possible" in m):
        if not prim:
            return out
        li = info_at(prim[0])
        if li is None:
            return out
        out["gen_line"] = prim[0]["line_start"]
        out["fn"] = li.fn or li.item_fn
        out["src"] = li.fn_src
        out["src_line"] = li.src_line
        if li.fn and li.fn_kind == "body" and li.in_vc and li.tag_props and "assertion failed" in m:
            # an assertion in a spliced proof block that was explicitly tagged: it restates a code-derived fact in terms of the
            # specification (e.g. "the dynamic scalar vector is now spec(...)"), so its failure is a property-level failure
            out.update(kind="prop", props=list(li.tag_props), id=li.tag_id)
            return out
        if li.fn and li.fn_kind == "body" and not li.in_vc:
            props = None; cid = None
            # a failed precondition that is a tagged clause of a callee contract
            for sp in allin:
                if (sp.get("label") or "").startswith("failed precondition"):
                    l2 = info_at(sp)
                    if l2 and l2.in_vc and l2.tag_props:
                        props = list(l2.tag_props); cid = l2.tag_id
            if props is None:
                props = safety_props(unit, li.fn)
                cid = "safety:%s" % li.fn
            out.update(kind="prop", props=props, id=cid)
        else:
            out.update(kind="aux", id="aux:%s:%s" % (li.fn or li.item_fn, li.vc_origin if li.in_vc else li.file))
        return out
    # decreases, rlimit, type errors, unsupported constructs ...
    if prim:
        li = info_at(prim[0])
        if li:
            out["gen_line"] = prim[0]["line_start"]; out["fn"] = li.fn or li.item_fn; out["src"] = li.fn_src; out["src_line"] = li.src_line
    low = m
    if "decreases" in low or "rlimit" in low or "resource limit" in low or "timed out" in low or "termination" in low:
        out["kind"] = "aux"; out["id"] = "aux:%s" % out["fn"]
    return out
