#!/usr/bin/env python3
# Regenerates MANIFEST.json from vlib/props.py (claimed properties) and vlib/na.py (not claimed, with reasons).
import json, os, sys
VERIF = os.path.dirname(os.path.dirname(os.path.abspath(__file__)))
sys.path.insert(0, VERIF)
from vlib import props, na
all_ids = [json.loads(l)["id"] for l in open(os.path.join(VERIF, "properties.jsonl"))]
checks = []
for pid in all_ids:
    if pid not in props.PROPS: continue
    c = props.PROPS[pid]
    checks.append({
        "property_id": pid,
        "quick_cmd": "./check %s --tier quick" % pid,
        "thorough_cmd": "./check %s --tier thorough" % pid,
        "evidence_file": "/verif/evidence/%s.json" % pid,
        "replay_cmd_template": "./check %s --replay {path}" % pid,
        "engine": "verus" + ("+kani" if c.get("kani") else ""),
        "level_claimed": {"category": "proof", "text": c["claim"], "design_ref": c["design_ref"]},
        "level_note": "Trusted base: " + "; ".join(props.COMMON_ASSUMPTIONS + c.get("assumptions", [])),
        "technique": c["technique"],
    })
nas = [{"property_id": pid, "reason": na.NA[pid]} for pid in all_ids if pid not in props.PROPS]
missing = [pid for pid in all_ids if pid not in props.PROPS and pid not in na.NA]
assert not missing, missing
m = {
    "version": 1,
    "setup_cmd": "./setup.sh",
    "hooks": {"guard": "verif", "enable": "cargo feature `verif` of tari_bulletproofs_plus (--features verif); used only by the Kani harness crate /verif/kani; the Verus path reads source and needs no hook",
              "baseline_off_cmd": "cd /repo && cargo test --workspace --no-fail-fast --offline",
              "source_commits": na.HOOK_COMMITS, "add_only": True},
    "engines": [
        {"name": "vx+verus", "path": "/verif/check", "serves_properties": [c["property_id"] for c in checks],
         "kind_free_text": "mechanical extraction of the real functions from /repo's working tree (vx, syn-based) + contracts spliced from /verif/contracts + Verus 0.2026.09.13 deductive verification; per-obligation classification and evidence by /verif/check"},
        {"name": "kani", "path": "/verif/kani", "serves_properties": [c["property_id"] for c in checks if "kani" in c["engine"]],
         "kind_free_text": "Kani 0.68 harnesses on the compiled real crate (thorough tier): loop-free full-domain harnesses are complete proofs; harnesses with #[kani::unwind] are labelled bounded"},
    ],
    "checks": checks,
    "not_applicable": nas,
    "notes": "Contract-based deductive verification. Exit codes of ./check: 0 all obligations of the property discharged; 1 VIOLATION (a property-level obligation generated from /repo's current source fails); 2 INCONCLUSIVE (lost anchor, unsupported construct, auxiliary proof step or resource limit - never an alarm). See DESIGN.md.",
}
json.dump(m, open(os.path.join(VERIF, "MANIFEST.json"), "w"), indent=1)
print("MANIFEST.json: %d checks, %d not_applicable" % (len(checks), len(nas)))
