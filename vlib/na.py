# Properties not claimed (yet), each with the reason shown in MANIFEST.json.
HOOK_COMMITS = ["62883b5"]
FIX_COMMITS = ["91becbd", "952c8ec"]
PENDING = "contracts for this property are not completed in /verif yet (see DESIGN.md section 7 for the plan); not claimed until its check runs end to end"
NA = {
    
      
    
    "C18": "quantifies over thread schedules and interleavings: Kani has no thread support and Verus would need its permission types threaded through once_cell/Arc (external crates); no contract within reach can express it (DESIGN.md section 7, C18)",
    "C20": "about the contents of heap memory at the moment it is freed: neither Verus's memory model nor Kani's contracts can mention a buffer after its owner is dropped (DESIGN.md section 7, C20)",
}
