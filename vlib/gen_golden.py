#!/usr/bin/env python3
# Records the behaviour digest of the unchanged tree per property (bpp-replay fingerprint): every result the real crate returns on the
# directed inputs, with fixed seeds. Used only to tell "the proof no longer goes through" apart from "the behaviour changed" for
# functions whose behaviour is fully visible in the prover's / decoder's / constructors' outputs (DESIGN section 5).
import json, os, sys
V = os.path.dirname(os.path.dirname(os.path.abspath(__file__)))
sys.path.insert(0, V)
from vlib import props, replay
out = {}
for p in sorted(props.PROPS):
    fp = replay.fingerprint(p)
    if not fp:
        print("cannot compute the digest for", p); sys.exit(1)
    out[p] = fp
json.dump(out, open(os.path.join(V, "behaviour_golden.json"), "w"), indent=0, sort_keys=True)
print("golden digests written for", len(out), "properties")
