#!/usr/bin/env python3
# Development-time helper: records the loop-header fingerprint (@hdr=) of every annotated loop in the contract files,
# taken from the extractor's LOOP log of a unit. At run time a mismatch makes the extractor exit 3 (INCONCLUSIVE).
import os, re, sys
VERIF = os.path.dirname(os.path.dirname(os.path.abspath(__file__)))
sys.path.insert(0, VERIF)
from vlib import build, units
for un in sys.argv[1:]:
    u = units.UNITS[un]
    try:
        build.assemble(un, u)
    except build.Inconclusive as e:
        print("note:", str(e)[:300])
    hashes = {}
    counts = {}
    local_names = {}
    csigs = {}
    for line in open(os.path.join(build.BUILD, un + ".xlog")):
        p = line.rstrip("\n").split("\t")
        if p[0] == "LOOP":
            hashes[(p[2], p[3])] = p[4]
            counts[p[2]] = max(counts.get(p[2], 0), int(p[3]))
        if p[0] == "CLOSURE":
            csigs[(p[2], p[3])] = p[4]
        if p[0] == "LOCALS":
            local_names[p[2]] = p[3] if len(p) > 3 else ""
    for c in u["contracts"]:
        path = os.path.join(VERIF, "contracts", c)
        out = []; f = None; changed = False
        lines = open(path).read().split("\n")
        seen_loops = set()
        for idx, line in enumerate(lines):
            if line.startswith("#loops ") and f in counts:
                continue
            if line.startswith("#locals ") and local_names.get(f):
                continue
            if line.startswith("#fn "):
                f = line[4:].strip().replace("::", "__")
                out.append(line)
                if f in counts and f not in seen_loops:
                    seen_loops.add(f)
                    new = "#loops %d" % counts[f]
                    out.append(new)
                    if not (idx + 1 < len(lines) and lines[idx + 1] == new): changed = True
                if local_names.get(f):
                    new = "#locals %s" % local_names[f]
                    out.append(new)
                    if new not in lines[idx + 1: idx + 3]: changed = True
                continue
            mc = re.match(r"^#closure (\d+)(.*)$", line)
            if mc and (f, mc.group(1)) in csigs:
                new = "#closure %s @sig=%s" % (mc.group(1), csigs[(f, mc.group(1))])
                if new != line: changed = True
                line = new
            m = re.match(r"^#(inv|dec|pre|post|bs|be) (\d+)(.*)$", line)
            if m and (f, m.group(2)) in hashes:
                rest = re.sub(r"\s*@hdr=\w+", "", m.group(3))
                new = "#%s %s @hdr=%s%s" % (m.group(1), m.group(2), hashes[(f, m.group(2))], rest)
                if new != line: changed = True
                line = new
            out.append(line)
        if changed:
            open(path, "w").write("\n".join(out))
            print("updated", c)
