# Verification units: which real functions are extracted from /repo (verified against their contract) and which are
# emitted as stubs (signature taken from /repo, contract assumed here and proved in the unit that owns the function).

PRELUDE_ALL = ["00_header.rs", "10_algebra.rs", "15_field.rs", "20_ops.rs", "30_traits.rs", "40_zeroize.rs", "50_merlin.rs",
               "60_shims.rs", "70_stdgaps.rs", "75_hash.rs", "80_msm.rs", "85_chunks.rs", "95_gens.rs"]


def items(src, names):
    return {"kind": "items", "src": src, "items": names}


def text(f):
    return {"kind": "text", "file": f}


def raw(t):
    return {"kind": "raw", "text": t}


def fns(src, header, prefix, fns=None, stubs=None, impl_filter=None, **kw):
    d = {"kind": "fns", "src": src, "header": header, "prefix": prefix, "fns": fns or [], "stubs": stubs or [], "impl_filter": impl_filter}
    d.update(kw)
    return d


# type definitions are extracted from /repo (fields printed pub, derives filtered)
TYPES = [
    items("src/errors.rs", ["ProofError"]),
    items("src/generators/pedersen_gens.rs", ["ExtensionDegree", "PedersenGens"]),
    items("src/generators/bulletproof_gens.rs", ["BulletproofGens"]),
    items("src/generators/aggregated_gens_iter.rs", ["AggregatedGensIter"]),
    items("src/range_parameters.rs", ["RangeParameters"]),
    items("src/range_statement.rs", ["RangeStatement"]),
    items("src/commitment_opening.rs", ["CommitmentOpening"]),
    items("src/range_witness.rs", ["RangeWitness"]),
    items("src/extended_mask.rs", ["ExtendedMask"]),
    items("src/range_proof.rs", ["VerifyAction", "RangeProof", "MAX_RANGE_PROOF_BIT_LENGTH", "MAX_RANGE_PROOF_BATCH_SIZE"]),
]

EXT_TRYFROM = [
    fns("src/generators/pedersen_gens.rs", "impl TryFrom<u8> for ExtensionDegree { type Error = ProofError;", "ExtensionDegree_u8",
        impl_filter="impl TryFrom<u8> for ExtensionDegree"),
    fns("src/generators/pedersen_gens.rs", "impl TryFrom<usize> for ExtensionDegree { type Error = ProofError;", "ExtensionDegree_usize",
        impl_filter="impl TryFrom<usize> for ExtensionDegree"),
]


IMPL_ITER_SUBST = [("impl Iterator < Item = & P >", "AggregatedGensIter<'_, P>")]
AGI_HEADER = "impl<'a, P> Iterator for AggregatedGensIter<'a, P> {\n    type Item = &'a P;"


def types(ext="stub", agi="stub"):
    """extracted type definitions + ExtensionDegree conversions (verified in unit ctors, contract assumed elsewhere) + spec-side facts"""
    k = {"fns": ["try_from"]} if ext == "body" else {"stubs": ["try_from"]}
    ka = {"fns": ["next", "size_hint"]} if agi == "body" else {"stubs": ["next"]}
    agi_piece = fns("src/generators/aggregated_gens_iter.rs", AGI_HEADER, "AggregatedGensIter", impl_filter="impl Iterator for AggregatedGensIter", **ka)
    return TYPES + [with_fns(EXT_TRYFROM[0], **k), with_fns(EXT_TRYFROM[1], **k), text("spec/types_spec.rs"), text("spec/spec_bytes.rs"), text("spec/spec_gens.rs"), text("spec/spec_gens_new.rs"), agi_piece]


def with_fns(piece, fns=None, stubs=None):
    p = dict(piece)
    p["fns"] = fns or []
    p["stubs"] = stubs or []
    return p


UNITS = {}
DEFAULT_RENAMES_PLUS_TRYINTO = ("enumerate,chain,cloned,fold,any,sum,unzip,interleave,tuples,to_le_bytes,flat_map,by_ref,"
                                "chunks,chunks_mut,chunks_exact,shr,try_into")

# ---------------------------------------------------------------- U1 + U2 + U3: utilities and constructors
UNITS["ctors"] = {
    "prelude": PRELUDE_ALL,
    "contracts": ["ctors.vc", "gens_new.vc", "gens.vc"],
    "pieces": types("body") + [
        fns("src/commitment_opening.rs", "impl CommitmentOpening {", "CommitmentOpening", fns=["new", "r_len"]),
        fns("src/extended_mask.rs", "impl ExtendedMask {", "ExtendedMask", fns=["assign", "blindings"]),
        fns("src/range_witness.rs", "impl RangeWitness {", "RangeWitness", fns=["init"]),
        fns("src/generators/bulletproof_gens.rs", "impl BulletproofGens<P> {", "BulletproofGens", stubs=["new"]),
        fns("src/range_parameters.rs", "impl RangeParameters<P> {", "RangeParameters",
            fns=["init", "max_aggregation_factor", "bit_length", "extension_degree", "h_base", "g_bases", "h_base_compressed",
                 "g_bases_compressed", "pc_gens"]),
        fns("src/generators/pedersen_gens.rs", "impl PedersenGens<P> {", "PedersenGens", fns=["h_base", "h_base_compressed"],
            impl_filter="impl PedersenGens<P>"),
        fns("src/range_statement.rs", "impl RangeStatement<P> {", "RangeStatement", fns=["init"]),
        fns("src/utils/generic.rs", None, None, fns=["compute_generator_padding"]),
        text("spec/spec_wf.rs"),
        text("spec/canaries_ctors.rs"),
    ],
    "safety": {"*": ["C17"], "compute_generator_padding": ["C16"]},
}

# ---------------------------------------------------------------- U4 + U5: transcript protocol and range-proof transcript
RPT_ITEMS = [items("src/transcripts.rs", ["RangeProofTranscript"])]
RPT_HEADER = "impl<'a, R: CryptoRngCore> RangeProofTranscript<'a, P, R> {"
RPT_FNS = ["new", "challenges_y_z", "challenge_round_e", "challenge_final_e", "to_verifier_rng", "build_rng", "as_mut_rng"]
RPT_OPAQUE = ["new=>let size : usize~size_of=>opaque_size(witness)"]
TPROTO_FNS = ["append_domain_separator", "append_point", "validate_and_append_point", "append_scalar", "challenge_scalar"]
TPROTO_HEADER = "impl TranscriptProtocol for Transcript {\n    open spec fn tlog(&self) -> Seq<TEvent> { self.log() }"

UNITS["transcripts"] = {
    "prelude": PRELUDE_ALL,
    "contracts": ["transcripts.vc", "ctors.vc", "gens.vc"],
    "owns_text": ["spec/tproto_trait.rs"],
    "pieces": types() + RPT_ITEMS + [
        text("spec/tproto_trait.rs"),
        text("spec/spec_transcript.rs"),
        fns("src/protocols/transcript_protocol.rs", TPROTO_HEADER, "TranscriptProtocol", fns=TPROTO_FNS, impl_filter="impl TranscriptProtocol for Transcript"),
        fns("src/transcripts.rs", RPT_HEADER, "RangeProofTranscript", fns=RPT_FNS, opaque=RPT_OPAQUE),
        text("spec/canaries_transcripts.rs"),
    ],
    "safety": {"*": ["C04"]},
}

# ---------------------------------------------------------------- U6: nonce KDF and scalar protocol
SPROTO_HEADER = "impl ScalarProtocol for Scalar {"
UNITS["nonce"] = {
    "prelude": PRELUDE_ALL,
    "contracts": ["nonce.vc", "ctors.vc", "gens.vc"],
    "owns_text": ["spec/sproto_trait.rs"],
    "pieces": types() + [
        items("src/utils/generic.rs", ["BLAKE2B_PERSONA_LIMIT"]),
        text("spec/sproto_trait.rs"),
        text("spec/spec_mask.rs"),
        fns("src/protocols/scalar_protocol.rs", SPROTO_HEADER, "ScalarProtocol", fns=["random_not_zero", "from_hasher_blake2b"],
            impl_filter="impl ScalarProtocol for Scalar"),
        fns("src/utils/generic.rs", None, None, fns=["encode_usize", "nonce"]),
        text("spec/canaries_nonce.rs"),
    ],
    "safety": {"*": ["C09"], "nonce": ["C09", "C16"], "encode_usize": ["C09", "C16"]},
}

# ---------------------------------------------------------------- U8: generators
UNITS["gens"] = {
    "prelude": PRELUDE_ALL,
    "contracts": ["gens.vc", "ctors.vc"],
    "pieces": types(agi="body") + [
        text("spec/spec_wf.rs"),
        fns("src/generators/bulletproof_gens.rs", "impl BulletproofGens<P> {", "BulletproofGens", fns=["g_iter", "h_iter"], subst=IMPL_ITER_SUBST),
        text("spec/lemmas_clone.rs"),
        fns("src/generators/bulletproof_gens.rs", "impl Clone for BulletproofGens<P> {", "BulletproofGens", fns=["clone"], impl_filter="implCloneforBulletproofGens<P>", opdesugar=False),
        fns("src/range_parameters.rs", "impl RangeParameters<P> {", "RangeParameters", fns=["gi_base_iter", "hi_base_iter", "precomp"],
            stubs=["bit_length", "max_aggregation_factor"], subst=IMPL_ITER_SUBST),
    ],
    "safety": {"*": ["C11"], "next": ["C11", "C16"]},
}

# ---------------------------------------------------------------- U9-U14: verifier
RP_HEADER = "impl RangeProof<P> {"
RP_GETTER_STUBS = ["max_aggregation_factor", "bit_length", "extension_degree", "h_base", "g_bases", "h_base_compressed", "g_bases_compressed",
                   "gi_base_iter", "hi_base_iter", "precomp"]


def verifier_pieces(verify_fns, verify_stubs, hoist=()):
    return types() + RPT_ITEMS + [
        text("spec/tproto_trait.rs"), text("spec/sproto_trait.rs"), text("spec/spec_transcript.rs"), text("spec/spec_mask.rs"), text("spec/spec_wf.rs"),
        text("spec/spec_verify.rs"), text("spec/spec_relation.rs"),
        fns("src/protocols/transcript_protocol.rs", TPROTO_HEADER, "TranscriptProtocol", stubs=TPROTO_FNS, impl_filter="impl TranscriptProtocol for Transcript"),
        fns("src/protocols/scalar_protocol.rs", SPROTO_HEADER, "ScalarProtocol", stubs=["random_not_zero", "from_hasher_blake2b"],
            impl_filter="impl ScalarProtocol for Scalar"),
        fns("src/transcripts.rs", RPT_HEADER, "RangeProofTranscript", stubs=["new", "challenges_y_z", "challenge_round_e", "challenge_final_e", "to_verifier_rng"]),
        fns("src/utils/generic.rs", None, None, stubs=["nonce", "compute_generator_padding"]),
        fns("src/extended_mask.rs", "impl ExtendedMask {", "ExtendedMask", stubs=["assign"]),
        fns("src/range_parameters.rs", "impl RangeParameters<P> {", "RangeParameters", stubs=RP_GETTER_STUBS, subst=IMPL_ITER_SUBST),
        fns("src/range_proof.rs", RP_HEADER, "RangeProof", fns=verify_fns, stubs=verify_stubs, mapcollect=True, hoist=list(hoist)),
    ]


UNITS["verify"] = {
    "prelude": PRELUDE_ALL,
    "_hoist_note": "receivers of the two Iterator::any calls of the consistency check are bound to locals (R-HOISTARGS, receiver form)",
    "contracts": ["ctors.vc", "gens.vc", "transcripts.vc", "nonce.vc", "consistency.vc", "batch.vc", "verify_safety.vc", "verify_transcript.vc", "verify_mask.vc", "verify_refusal.vc"],
    "pieces": verifier_pieces(["verify_batch", "verify", "verify_statements_and_generators_consistency", "a_decompressed", "a1_decompressed",
                               "b_decompressed", "li_decompressed", "ri_decompressed"], [], hoist=["verify_statements_and_generators_consistency:v_any@recv"]),
    "safety": {"*": ["C16"]},
    "rlimit": 150,
}

# ---------------------------------------------------------------- U7: proof codec
UNITS["codec"] = {
    "prelude": PRELUDE_ALL + ["90_codec.rs"],
    "contracts": ["ctors.vc", "gens.vc", "codec.vc"],
    "pieces": types() + [
        items("src/range_proof.rs", ["SERIALIZED_ELEMENT_SIZE", "FIXED_PROOF_ELEMENTS", "ENCODED_EXTENSION_SIZE"]),
        text("spec/spec_codec.rs"),
        fns("src/range_proof.rs", RP_HEADER, "RangeProof", fns=["to_bytes", "from_bytes", "extension_degree_from_proof_bytes", "extension_degree"], opdesugar=False,
            renames=DEFAULT_RENAMES_PLUS_TRYINTO, notryinto=True),
        text("spec/canaries_codec.rs"),
    ],
    "safety": {"*": ["C16", "C15"]},
}

# generator derivation primitives (C11): the SHAKE256 chain and the SHA3-512 hash-to-point
UNITS["gens_chain"] = {
    "prelude": PRELUDE_ALL + ["96_xof.rs"],
    "contracts": ["gens_chain.vc"],
    "pieces": types() + [
        items("src/generators/generators_chain.rs", ["GeneratorsChain"]),
        fns("src/generators/generators_chain.rs", "impl GeneratorsChain<P> {", "GeneratorsChain", fns=["new"], impl_filter="implGeneratorsChain<P>", opdesugar=False, renames="enumerate"),
        fns("src/generators/generators_chain.rs", "impl GeneratorsChain<P> {", "GeneratorsChain", fns=["default"], impl_filter="implDefaultforGeneratorsChain<P>", opdesugar=False),
        fns("src/generators/generators_chain.rs", "impl GeneratorsChain<P> {", "GeneratorsChain", fns=["next"], impl_filter="implIteratorforGeneratorsChain<P>", opdesugar=False,
            subst=[("Option < Self :: Item >", "Option < P >")]),
        fns("src/protocols/curve_point_protocol.rs", "impl P {", "CurvePointProtocol", fns=["hash_from_bytes_sha3_512"], opdesugar=False, renames="enumerate"),
        raw("proof fn vx_canary_axioms_gc() ensures false { broadcast use group_ring; }\n"),
    ],
    "safety": {"*": ["C11"]},
}

# the constructor of the Pedersen generator sets (src/ristretto.rs)
PCTOR_SUBST = [("ExtensionDegree :: COUNT", "6"), ("RISTRETTO_BASEPOINT_POINT", "v_basepoint()"), ("RISTRETTO_BASEPOINT_COMPRESSED", "v_basepoint_compressed()"),
               ("RistrettoPoint", "P"), ("CompressedRistretto", "CP")]
UNITS["pedersen_ctor"] = {
    "prelude": PRELUDE_ALL + ["98_ristretto.rs"],
    "contracts": ["pedersen_ctor.vc"],
    "pieces": types() + [
        text("spec/spec_wf.rs"), text("spec/spec_verify.rs"), text("spec/spec_prove.rs"), text("spec/spec_transcript.rs"), text("spec/spec_mask.rs"), text("spec/tproto_trait.rs"), text("spec/sproto_trait.rs"),
    ] + RPT_ITEMS + [
        fns("src/ristretto.rs", None, None, fns=["get_g_base", "create_pedersen_gens_with_extension_degree"],
            stubs=["ristretto_masking_basepoints", "ristretto_compressed_masking_basepoints"], opdesugar=False, subst=PCTOR_SUBST),
    ],
    "safety": {"*": ["C11", "C17"]},
}

# the once-initialised statics of src/ristretto.rs: the closures handed to OnceCell::get_or_init, under contract
STATICS_SUBST = PCTOR_SUBST + [
    ("static INSTANCE : OnceCell < [P ; 6 ] > = OnceCell :: new () ;", ""), ("static INSTANCE : OnceCell < [CP ; 6 ] > = OnceCell :: new () ;", ""),
    ("INSTANCE . get_or_init (", "v_once_init ("),
    ("(ExtensionDegree :: MINIMUM .. )", "v_range_from (ExtensionDegree :: MINIMUM )"), (". to_owned () + & i . to_string ()", ". v_concat_decimal (i )"),
]
UNITS["pedersen_statics"] = {
    "prelude": PRELUDE_ALL + ["98_ristretto.rs"],
    "contracts": ["pedersen_statics.vc"],
    "pieces": types() + [
        items("src/generators/pedersen_gens.rs", ["ExtensionDegree::MINIMUM"]),
        fns("src/ristretto.rs", None, None, fns=["ristretto_masking_basepoints", "ristretto_compressed_masking_basepoints"],
            opdesugar=False, subst=STATICS_SUBST, renames="enumerate"),
        raw("proof fn vx_canary_axioms_ps() ensures false { broadcast use group_ring; }\n"),
    ],
    "safety": {"*": ["C11"]},
}

# src/utils/nullrng.rs
UNITS["nullrng"] = {
    "prelude": ["00_header.rs", "94_nullrng.rs"],
    "contracts": ["nullrng.vc"],
    "pieces": [
        fns("src/utils/nullrng.rs", "impl NullRng {", "NullRng", fns=["fill_bytes", "try_fill_bytes", "next_u32", "next_u64"], impl_filter="implRngCoreforNullRng", opdesugar=False,
            subst=[("rand_core :: Error", "RandError")]),
        raw("proof fn vx_canary_axioms_nr() ensures false { }\n"),
    ],
    "safety": {"*": ["C08"]},
}

# the forwarding impls of src/ristretto.rs (FixedBytesRepr, Decompressable, FromUniformBytes, Compressable for the dalek types)
GLUE_SUBST = [("CompressedRistretto :: as_bytes (self )", "self . dalek_as_bytes ()"), ("CompressedRistretto :: decompress (self )", "self . dalek_decompress ()"),
              ("RistrettoPoint :: from_uniform_bytes (bytes )", "RistrettoPoint :: dalek_from_uniform_bytes (bytes )"), ("RistrettoPoint :: compress (self )", "self . dalek_compress ()"),
              ("Option < Self :: Decompressed >", "Option < RistrettoPoint >"), ("Self :: Compressed", "CompressedRistretto")]
UNITS["ristretto_glue"] = {
    "prelude": ["00_header.rs", "99_dalek.rs"],
    "contracts": ["ristretto_glue.vc"],
    "pieces": [
        fns("src/ristretto.rs", "impl CompressedRistretto {", "CompressedRistretto", fns=["as_fixed_bytes", "from_fixed_bytes"], impl_filter="implFixedBytesReprforCompressedRistretto", opdesugar=False, subst=GLUE_SUBST, renames="enumerate"),
        fns("src/ristretto.rs", "impl CompressedRistretto {", "CompressedRistretto", fns=["decompress"], impl_filter="implDecompressableforCompressedRistretto", opdesugar=False, subst=GLUE_SUBST, renames="enumerate"),
        fns("src/ristretto.rs", "impl RistrettoPoint {", "RistrettoPoint", fns=["from_uniform_bytes"], impl_filter="implFromUniformBytesforRistrettoPoint", opdesugar=False, subst=GLUE_SUBST, renames="enumerate"),
        fns("src/ristretto.rs", "impl RistrettoPoint {", "RistrettoPoint", fns=["compress"], impl_filter="implCompressableforRistrettoPoint", opdesugar=False, subst=GLUE_SUBST, renames="enumerate"),
        raw("proof fn vx_canary_axioms_glue() ensures false { }\n"),
    ],
    "safety": {"*": ["C15", "C16"]},
}

# serde wrappers (C15: "the serde form accepts and produces exactly the same byte strings")
UNITS["serde"] = {
    "prelude": PRELUDE_ALL + ["90_codec.rs", "97_serde.rs"],
    "contracts": ["ctors.vc", "gens.vc", "codec.vc", "serde.vc"],
    "pieces": types() + [
        items("src/range_proof.rs", ["SERIALIZED_ELEMENT_SIZE", "FIXED_PROOF_ELEMENTS", "ENCODED_EXTENSION_SIZE"]),
        text("spec/spec_codec.rs"),
        fns("src/range_proof.rs", RP_HEADER, "RangeProof", stubs=["to_bytes", "from_bytes"], opdesugar=False, renames=DEFAULT_RENAMES_PLUS_TRYINTO, notryinto=True),
        fns("src/range_proof.rs", RP_HEADER, "RangeProof", fns=["serialize"], impl_filter="implSerializeforRangeProof", opdesugar=False,
            # R-FULLSLICE (site): `&v[..]` of a Vec is `v.as_slice()` (Verus has no specification for indexing by RangeFull)
            subst=[("& self . to_bytes () [.. ]", "self . to_bytes () . as_slice ()")]),
        fns("src/range_proof.rs", "impl RangeProofVisitor<P> {", "RangeProofVisitor", fns=["visit_bytes"], impl_filter="forRangeProofVisitor", opdesugar=False,
            subst=[("RangeProof < T >", "RangeProof < P >")]),
        text("spec/canaries_codec.rs"),
    ],
    "safety": {"*": ["C15", "C16"]},
}

# ---------------------------------------------------------------- U15-U16: prover
PC_COMMIT = fns("src/generators/pedersen_gens.rs", "impl PedersenGens<P> {", "PedersenGens", impl_filter="impl PedersenGens<P>", fn_mono=["commit:T=Scalar"])


def prover_pieces(extra_hoist=()):
    return types() + RPT_ITEMS + [
        text("spec/tproto_trait.rs"), text("spec/sproto_trait.rs"), text("spec/spec_transcript.rs"), text("spec/spec_mask.rs"), text("spec/spec_wf.rs"),
        text("spec/spec_verify.rs"), text("spec/spec_prove.rs"),
        fns("src/protocols/scalar_protocol.rs", SPROTO_HEADER, "ScalarProtocol", stubs=["random_not_zero", "from_hasher_blake2b"],
            impl_filter="impl ScalarProtocol for Scalar"),
        fns("src/transcripts.rs", RPT_HEADER, "RangeProofTranscript", stubs=["new", "challenges_y_z", "challenge_round_e", "challenge_final_e", "as_mut_rng"]),
        fns("src/utils/generic.rs", None, None, stubs=["nonce", "compute_generator_padding"]),
        fns("src/range_parameters.rs", "impl RangeParameters<P> {", "RangeParameters", stubs=RP_GETTER_STUBS, subst=IMPL_ITER_SUBST),
        with_fns(PC_COMMIT, stubs=["commit"]),
        fns("src/range_proof.rs", RP_HEADER, "RangeProof", fns=["prove_with_rng"], mapcollect=True, hoist=["prove_with_rng:@ret"] + list(extra_hoist)),
    ]


# the `prove` entry point: prove_with_rng by contract (proved in unit prove)
UNITS["prove_wrapper"] = {
    "prelude": PRELUDE_ALL,
    "contracts": ["ctors.vc", "gens.vc", "prove_safety.vc", "prove_structure.vc", "prove_transcript.vc", "prove_wrapper.vc"],
    "pieces": types() + RPT_ITEMS + [
        text("spec/tproto_trait.rs"), text("spec/sproto_trait.rs"), text("spec/spec_transcript.rs"), text("spec/spec_mask.rs"), text("spec/spec_wf.rs"),
        text("spec/spec_verify.rs"), text("spec/spec_prove.rs"),
        fns("src/range_proof.rs", RP_HEADER, "RangeProof", fns=["prove"], stubs=["prove_with_rng"], opdesugar=False),
    ],
    "safety": {"*": ["C01", "C06"]},
}

UNITS["prove"] = {
    "prelude": PRELUDE_ALL,
    "contracts": ["ctors.vc", "gens.vc", "transcripts.vc", "nonce.vc", "commit.vc", "prove_safety.vc", "prove_structure.vc", "prove_rng.vc", "prove_transcript.vc"],
    "pieces": prover_pieces(),
    "safety": {"*": ["C01", "C06"]},
    "rlimit": 150,
}
# the message layer of the prover: the same extracted body, with every scalar and point pinned to spec/spec_prove_msg.rs
UNITS["prove_msg"] = {
    "prelude": PRELUDE_ALL,
    "contracts": ["ctors.vc", "gens.vc", "transcripts.vc", "nonce.vc", "commit.vc", "prove_safety.vc", "prove_structure.vc", "prove_rng.vc", "prove_transcript.vc", "prove_messages.vc"],
    "pieces": prover_pieces(extra_hoist=["prove_with_rng:vartime_mixed_multiscalar_mul", "prove_with_rng:vartime_multiscalar_mul#10",
                                         "prove_with_rng:v_fold#20", "prove_with_rng:v_fold@recv#30"]) + [text("spec/spec_prove_msg.rs")],
    "safety": {"*": ["C01", "C06"]},
    "rlimit": 300,
}
UNITS["commit"] = {
    "prelude": PRELUDE_ALL,
    "contracts": ["ctors.vc", "gens.vc", "commit.vc"],
    "pieces": types() + RPT_ITEMS + [text("spec/tproto_trait.rs"), text("spec/sproto_trait.rs"), text("spec/spec_transcript.rs"), text("spec/spec_mask.rs"),
                                     text("spec/spec_wf.rs"), text("spec/spec_verify.rs"), text("spec/spec_prove.rs"), with_fns(PC_COMMIT, fns=["commit"])],
    "safety": {"*": ["C17", "C06"]},
}

UNITS["verify_rel"] = {
    "prelude": PRELUDE_ALL,
    "contracts": ["ctors.vc", "gens.vc", "transcripts.vc", "nonce.vc", "consistency.vc", "verify_safety.vc", "verify_transcript.vc", "verify_relation.vc"],
    "pieces": verifier_pieces(["verify"], ["verify_statements_and_generators_consistency", "a_decompressed", "a1_decompressed",
                               "b_decompressed", "li_decompressed", "ri_decompressed"], hoist=["verify:vartime_mixed_multiscalar_mul"]),
    "safety": {"*": ["C16"]},
    "rlimit": 300,
}

GENS_NEW_SUBST = [
    ("LittleEndian :: write_u32 (& mut label [1 .. 5 ] , party_index )", "v_write_u32_at(&mut label, 1, party_index)"),
    ("GeneratorsChain :: < P > :: new (& label ) . take (gens_capacity )", "v_chain_take(&label, gens_capacity)"),
    ("g_vec . iter () . v_flat_map (move | g_j | g_j . iter () )", "g_vec.v_flat_vecs()"),
    ("h_vec . iter () . v_flat_map (move | h_j | h_j . iter () )", "h_vec.v_flat_vecs()"),
]
UNITS["gens_new"] = {
    "prelude": PRELUDE_ALL,
    "contracts": ["gens.vc", "ctors.vc", "gens_new.vc"],
    "pieces": types() + [
        text("spec/spec_wf.rs"),
        fns("src/generators/bulletproof_gens.rs", "impl BulletproofGens<P> {", "BulletproofGens", fns=["new"], mapcollect=True, subst=GENS_NEW_SUBST),
    ],
    "safety": {"*": ["C11"]},
}

# ---------------------------------------------------------------- U17: pure lemmas over the contracts (no extracted code)
UNITS["lemmas"] = {
    "prelude": PRELUDE_ALL,
    "contracts": ["ctors.vc", "gens.vc"],
    "pieces": types() + RPT_ITEMS + [
        text("spec/tproto_trait.rs"), text("spec/sproto_trait.rs"), text("spec/spec_transcript.rs"), text("spec/spec_mask.rs"), text("spec/spec_wf.rs"),
        text("spec/spec_verify.rs"), text("spec/spec_relation.rs"), text("spec/spec_prove.rs"), text("spec/lemmas_c09.rs"), text("spec/lemmas_c02.rs"), text("spec/lemmas_c05.rs"),
    ],
    "safety": {},
}

UNITS["lemmas_codec"] = {
    "prelude": PRELUDE_ALL + ["90_codec.rs"],
    "contracts": ["ctors.vc", "gens.vc"],
    "pieces": types() + [
        items("src/range_proof.rs", ["SERIALIZED_ELEMENT_SIZE", "FIXED_PROOF_ELEMENTS", "ENCODED_EXTENSION_SIZE"]),
        text("spec/spec_codec.rs"), text("spec/lemmas_c15.rs"),
    ],
    "safety": {},
}
