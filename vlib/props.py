# Per-property configuration: which units decide it, what is claimed, what stays assumed / undecided.
# (The property statements themselves live in properties.jsonl and are never edited.)

COMMON_ASSUMPTIONS = [
    "Verus 0.2026.09.13 + Z3 are sound; --no-lifetime is passed (rustc borrow-checks the real crate instead)",
    "the extraction rules of DESIGN.md section 3 preserve semantics (each application is listed in coverage.rule_applications)",
    "R-MONO: what is proved for the abstract group type P holds for every P meeting the assumed group/encoding contracts (parametricity)",
    "64-bit target (global size_of usize == 8); machine integers are machine integers (overflow is checked, not assumed away)",
    "dependency contracts listed in coverage.trusted_base (curve25519-dalek, merlin, blake2, sha3, std gaps, iterator shims); panics inside dependencies whose stated preconditions hold are assumed absent",
]

PROPS = {
    "C17": {
        "units": ["ctors", "commit"],
        "design_ref": "DESIGN.md section 7, C17",
        "technique": "contract-based deductive verification (Verus) of the real constructors, extracted mechanically on every run; iff-postconditions",
        "claim": "Every validating constructor (RangeParameters::init, RangeStatement::init, RangeWitness::init, CommitmentOpening::r_len/new, "
                 "ExtendedMask::assign/blindings, ExtensionDegree::try_from for u8 and usize, PedersenGens::commit) is proved, for all arguments, to return Ok "
                 "exactly on the documented domain and to store its arguments unchanged; panic freedom of the same bodies is part of the obligations.",
        "assumptions": [
            "usize::is_power_of_two is assumed to equal vstd's is_pow2 (0 is not a power of two)",
            "RangeParameters::init additionally refuses capacities above u32::MAX (from BulletproofGens::new's u32 party index); outside C17's quantified range 0..=130",
            "BulletproofGens::new's Ok-condition is taken from its contract (stub here; its body is under contract in unit gens)",
        ],
    },
    "C03": {
        "units": ["verify"],
        "design_ref": "DESIGN.md section 7, C03",
        "technique": "contract-based deductive verification (Verus) of the real verify_batch / consistency check / verify, extracted mechanically on every run; unbounded in the batch size",
        "claim": "For every batch size k (no bound; chunking specified by chunk_k) verify_batch refuses empty or length-mismatched inputs, runs the whole-batch "
                 "consistency check, hands every chunk of statements, proofs and transcripts to verify, and on success returns exactly k results whose i-th entry is "
                 "the mask specification of the i-th triple; the consistency check returns Ok only if all members share bit length, extension degree and "
                 "d1 length and it selects the largest member. The probabilistic 'only if' direction (an accepted batch implies each member's equation) is not a "
                 "deductive fact and is not claimed.",
        "assumptions": [
            "slice::chunks / chunks_mut are specified by chunk_k(s, n, k) = s[min(kn,len) .. min((k+1)n,len)] (shim)",
            "equality of the Pedersen generator vectors across members is checked by the code with slice equality, whose result is not specified here; agreement of gi/hi generator prefixes (Iterator::any with a closure) is not covered",
            "soundness direction (accepted batch => every member's equation holds) is probabilistic over the weights (Schwartz-Zippel) and outside deductive reach",
        ],
    },
    "C04": {
        "units": ["transcripts", "verify"],
        "design_ref": "DESIGN.md section 7, C04",
        "technique": "contract-based deductive verification (Verus): ghost-log model of merlin; real TranscriptProtocol impl, RangeProofTranscript and verify proved to absorb exactly the specified sequence before each challenge",
        "claim": "Every challenge (y, z, each round e_j, final e) derived by the verifier is proved to equal the transcript oracle applied to exactly the specified log: "
                 "caller context, domain separator, H, every G_k, bit length, extension degree, aggregation factor, every commitment, every promise (absent = 0), then A; "
                 "then y; then every (L_j, R_j) before e_j; then A1, B before e - for all configurations and proofs. Different logs giving different challenges is the "
                 "random-oracle assumption on Strobe and is not provable.",
        "assumptions": [
            "merlin 3.0.0 is modelled by a ghost log of (label, message) / (label, n) events with an uninterpreted strobe_prf; message framing by length is merlin's",
            "collision resistance / random-oracle behaviour of Strobe-128 (a changed log gives a changed challenge) is assumed, not proved",
            "prover-side transcript agreement is part of unit prove (listed there when claimed)",
        ],
    },
    "C09": {
        "units": ["nonce", "verify", "prove"],
        "design_ref": "DESIGN.md section 7, C09",
        "technique": "contract-based deductive verification (Verus): byte-level KDF contract for nonce(), per-component mask formula as loop invariants of the real verify(), position-wise postcondition",
        "claim": "nonce() is proved to be the documented keyed-Blake2b KDF (byte layout of key, label as persona, index encoding) and total on the verifier's arguments; "
                 "verify() is proved to return, for every batch position i and every extension-degree component k, exactly "
                 "((d1[k] - eta_k - e*d_k)*e^-2 - alpha_k - sum_j(e_j^2*dL_jk + e_j^-2*dR_jk)) * (z^2*y^(n+1))^-1 when the statement carries a seed and the mode recovers, "
                 "and None otherwise (VerifyOnly, no seed).",
        "assumptions": [
            "Blake2bMac512 / Scalar::from_bytes_mod_order_wide are uninterpreted functions with the documented Ok-condition (key <= 64, salt/persona <= 16 bytes)",
            "Scalar::batch_invert returns element-wise inverses (its debug_assert for a zero input concerns y == 1, probability 2^-252)",
            "the prover-side d1 formula and the composition lemma (recovered value == blinding factor) are claimed only once unit prove is in place",
        ],
    },
    "C16": {
        "units": ["verify", "nonce", "gens", "ctors"],
        "design_ref": "DESIGN.md section 7, C16",
        "technique": "contract-based deductive verification (Verus): built-in panic-freedom obligations (index, overflow, unwrap, shift) and dependency preconditions (dalek multiscalar length assertions) on the real verification path",
        "claim": "verify_batch, verify, the consistency check, the decompression helpers, nonce/encode_usize, compute_generator_padding and the generator iterator are proved "
                 "panic-free for every input under 'statements built through the validating constructors': every index, every + - * << >>, every pop/unwrap and both dalek "
                 "multiscalar length equalities (including static == table size with the computed padding) for every batch shape and capacity mix; every loop on the path "
                 "terminates. The decoder (from_bytes) is covered by unit codec when listed in coverage.units.",
        "assumptions": [
            "Scalar::batch_invert's debug_assert fires (debug builds only) if y == 1, a Fiat-Shamir challenge value with probability 2^-252; no input can be exhibited",
            "'time proportional to input size' is not expressible; termination of every loop is what is proved",
        ],
    },
    "C15": {
        "units": ["codec", "ctors"],
        "design_ref": "DESIGN.md section 7, C15",
        "technique": "contract-based deductive verification (Verus) of the real from_bytes / to_bytes (closures, chunks_exact, itertools tuples modelled by verified adapters); iff-acceptance for byte strings of every length",
        "claim": "from_bytes(b) is proved to return Ok exactly when b[0] is an extension degree d in 1..=6, the remainder is 5+d+2k 32-byte elements with k >= 1 and no trailing "
                 "bytes, and the d leading and the two response scalars are canonical; on success every field is the corresponding 32-byte slot (d1, A, A1, B, r1, s1, "
                 "every L_j/R_j), for byte strings of every length. to_bytes(p) is proved to equal the layout function enc(p) (degree byte, d1, A, A1, B, r1, s1, interleaved L/R). "
                 "extension_degree_from_proof_bytes and ExtensionDegree::try_from(u8) are exact. The serde wrappers (two forwarding calls behind serde's generic machinery) are not "
                 "under contract.",
        "assumptions": [
            "Scalar::from_canonical_bytes returns Some(s) iff the 32 bytes are canonical (uninterpreted predicate is_canonical) and then s.as_bytes() are those bytes (dalek contract)",
            "slice::chunks_exact and itertools::tuples are modelled by adapters with explicit cursor state (prelude/90_codec.rs); the pair adapter's next() is verified, its buffer semantics (odd leftover kept) is itertools' documented behaviour",
            "serde Serialize/Deserialize impls forward to to_bytes/from_bytes and are not extracted",
            "the pure round-trip lemmas (enc(decode(b)) == b, decode(enc(p)) == p for well-formed p) are listed in coverage.obligation_ids only once written; the zero-round finding of DESIGN section 8.2 belongs to them",
        ],
    },
    "C06": {
        "units": ["prove", "commit", "ctors", "transcripts"],
        "design_ref": "DESIGN.md section 7, C06",
        "technique": "contract-based deductive verification (Verus) of the real prove_with_rng and PedersenGens::commit; iff-contract between Ok and the witness-validity predicate, every `?` exit discharged",
        "claim": "prove_with_rng is proved, for all statements built through the validating constructors and all witnesses built through RangeWitness::init, to return Ok only if "
                 "the witness is valid (as many openings as commitments, equal extension degree, every value below 2^bits (v >> bits == 0, or bits == 64), every opening "
                 "recomputing its commitment under the statement's generators, every promise <= its value, position-wise), and conversely every Err it returns on a valid witness "
                 "with consistent Pedersen generators is a transcript rejection (ProofError::VerificationFailed: an identity point or a zero challenge); all other error and "
                 "panic paths (index, overflow, nonce derivation, padding, split, zero y-power) are proved unreachable. 'Whenever it returns a proof that proof verifies' is the "
                 "undecided algebraic part of C01.",
        "assumptions": [
            "curve25519-dalek multiscalar_mul returns the linear combination msm(scalars, points) and asserts equal lengths",
            "the scalar field has no zero divisors and 1 != 0 (axioms ax_no_zero_div, ax_one_ne_zero): used to show y^n != 0",
            "the labels \"alpha\", \"dL\", \"dR\", \"d\", \"eta\" are at most 16 bytes (axiom ax_label_lens about string literals)",
            "completeness of the folding argument (an honest proof verifies) is not decided here",
        ],
    },
}
