# Per-property configuration: which units decide it, what is claimed, what stays assumed / undecided.
# (The property statements themselves live in properties.jsonl and are never edited.)

COMMON_ASSUMPTIONS = [
    "Verus 0.2026.09.13 + Z3 are sound; --no-lifetime is passed (rustc borrow-checks the real crate instead)",
    "the extraction rules of DESIGN.md section 3 preserve semantics (each application is listed in coverage.rule_applications)",
    "R-MONO: what is proved for the abstract group type P holds for every P meeting the assumed group/encoding contracts (parametricity)",
    "64-bit target (global size_of usize == 8); machine integers are machine integers (overflow is checked, not assumed away)",
    "dependency contracts listed in coverage.trusted_base (curve25519-dalek, merlin, blake2, sha3, std gaps, iterator shims); panics inside dependencies whose stated preconditions hold are assumed absent",
]

PROPS = {
    "C17": {
        "kani": ["ext_try_from_u8_exact:kani-complete", "ext_try_from_usize_exact:kani-complete"],
        "units": ["ctors", "commit", "pedersen_ctor"],
        "design_ref": "DESIGN.md section 7, C17",
        "technique": "contract-based deductive verification (Verus) of the real constructors, extracted mechanically on every run; iff-postconditions",
        "claim": "Every validating constructor (RangeParameters::init, RangeStatement::init, RangeWitness::init, CommitmentOpening::r_len/new, "
                 "ExtendedMask::assign/blindings, ExtensionDegree::try_from for u8 and usize, PedersenGens::commit) is proved, for all arguments, to return Ok "
                 "exactly on the documented domain and to store its arguments unchanged; panic freedom of the same bodies is part of the obligations.",
        "assumptions": [
            "usize::is_power_of_two is assumed to equal vstd's is_pow2 (0 is not a power of two)",
            "RangeParameters::init additionally refuses capacities above u32::MAX (from BulletproofGens::new's u32 party index); outside C17's quantified range 0..=130",
            "BulletproofGens::new's Ok-condition is taken from its contract (stub here; its body is under contract in unit gens)",
        ],
    },
    "C03": {
        "units": ["verify"],
        "design_ref": "DESIGN.md section 7, C03",
        "technique": "contract-based deductive verification (Verus) of the real verify_batch / consistency check / verify, extracted mechanically on every run; unbounded in the batch size",
        "claim": "For every batch size k (no bound; chunking specified by chunk_k) verify_batch refuses empty or length-mismatched inputs, runs the whole-batch "
                 "consistency check, hands every chunk of statements, proofs and transcripts to verify, and on success returns exactly k results whose i-th entry is "
                 "the mask specification of the i-th triple; the consistency check returns Ok only if all members share bit length, extension degree, "
                 "d1 length, the Pedersen generators (h_base and the g_base vector, by slice equality) and agree with the largest member on every vector generator both contain "
                 "(party-major prefix of G_i and H_i), and it selects the largest member. The probabilistic 'only if' direction (an accepted batch implies each member's equation) is not a "
                 "deductive fact and is not claimed.",
        "assumptions": [
            "slice::chunks / chunks_mut are specified by chunk_k(s, n, k) = s[min(kn,len) .. min((k+1)n,len)] (shim)",
            "Iterator::any is modelled as: a true result means the closure accepted some item, a false result means it was called on every item and answered false (its documented short-circuit semantics); Iterator::flatten over &Option<T> yields the payloads of the Some items",
            "soundness direction (accepted batch => every member's equation holds) is probabilistic over the weights (Schwartz-Zippel) and outside deductive reach",
        ],
    },
    "C04": {
        "units": ["transcripts", "verify", "prove", "prove_wrapper"],
        "design_ref": "DESIGN.md section 7, C04",
        "technique": "contract-based deductive verification (Verus): ghost-log model of merlin; real TranscriptProtocol impl, RangeProofTranscript and verify proved to absorb exactly the specified sequence before each challenge",
        "claim": "Every challenge (y, z, each round e_j, final e) derived by the verifier is proved to equal the transcript oracle applied to exactly the specified log: "
                 "caller context, domain separator, H, every G_k, bit length, extension degree, aggregation factor, every commitment, every promise (absent = 0), then A; "
                 "then y; then every (L_j, R_j) before e_j; then A1, B before e - for all configurations and proofs. Different logs giving different challenges is the "
                 "random-oracle assumption on Strobe and is not provable.",
        "assumptions": [
            "merlin 3.0.0 is modelled by a ghost log of (label, message) / (label, n) events with an uninterpreted strobe_prf; message framing by length is merlin's",
            "collision resistance / random-oracle behaviour of Strobe-128 (a changed log gives a changed challenge) is assumed, not proved",
            "prover side: prove_with_rng is proved to draw y, z, every e_t and e from the oracle on the log of its own output proof (same specification function), absorbing compress(h_base)",
        ],
    },
    "C09": {
        "units": ["nonce", "verify", "prove", "lemmas", "ctors"],
        "design_ref": "DESIGN.md section 7, C09",
        "technique": "contract-based deductive verification (Verus): byte-level KDF contract for nonce(), per-component mask formula as loop invariants of the real verify(), position-wise postcondition",
        "claim": "nonce() is proved to be the documented keyed-Blake2b KDF (byte layout of key, label as persona, index encoding) and total on the verifier's arguments; "
                 "verify() is proved to return, for every batch position i and every extension-degree component k, exactly "
                 "((d1[k] - eta_k - e*d_k)*e^-2 - alpha_k - sum_j(e_j^2*dL_jk + e_j^-2*dR_jk)) * (z^2*y^(n+1))^-1 when the statement carries a seed and the mode recovers, "
                 "and None otherwise (VerifyOnly, no seed). prove_with_rng is proved to output, for a seeded statement, d1_k = eta_k + d_k*e + "
                 "(alpha_k + sum_j z^2j r_jk y^(nm+1) + sum_t(dL_tk e_t^2 + dR_tk e_t^-2)) e^2 with all five nonce families equal to the KDF and (y, z, e_t, e) equal to the transcript "
                 "oracle on the log of its own output (the same specification function the verifier is proved against). The pure lemma lemma_c09_end_to_end composes the two "
                 "postconditions: for one commitment under a seed, every extension degree 1..6 and every bit length, what the verifier returns is the opening's blinding vector, "
                 "component by component (hypotheses: nonzero challenges - a postcondition - and h_base_compressed == compress(h_base)).",
        "assumptions": [
            "Blake2bMac512 / Scalar::from_bytes_mod_order_wide are uninterpreted functions with the documented Ok-condition (key <= 64, salt/persona <= 16 bytes)",
            "Scalar::batch_invert returns element-wise inverses (its debug_assert for a zero input concerns y == 1, probability 2^-252)",
            "the statement's Pedersen generators must carry h_base_compressed == compress(h_base) for the prover's and the verifier's logs to coincide (true for library-built generators; a pub-field struct)",
        ],
    },
    "C16": {
        "kani": ["padding_contract:kani-complete"],
        "units": ["verify", "nonce", "gens", "ctors", "codec", "serde", "ristretto_glue"],
        "design_ref": "DESIGN.md section 7, C16",
        "technique": "contract-based deductive verification (Verus): built-in panic-freedom obligations (index, overflow, unwrap, shift) and dependency preconditions (dalek multiscalar length assertions) on the real verification path",
        "claim": "verify_batch, verify, the consistency check, the decompression helpers, nonce/encode_usize, compute_generator_padding and the generator iterator are proved "
                 "panic-free for every input under 'statements built through the validating constructors': every index, every + - * << >>, every pop/unwrap and both dalek "
                 "multiscalar length equalities (including static == table size with the computed padding) for every batch shape and capacity mix; every loop on the path "
                 "terminates. The decoder (from_bytes) is covered by unit codec when listed in coverage.units.",
        "assumptions": [
            "Scalar::batch_invert's debug_assert fires (debug builds only) if y == 1, a Fiat-Shamir challenge value with probability 2^-252; no input can be exhibited",
            "'time proportional to input size' is not expressible; termination of every loop is what is proved",
        ],
    },
    "C15": {
        "kani": ["ext_try_from_u8_exact:kani-complete"],
        "units": ["codec", "serde", "ctors", "lemmas_codec", "prove", "ristretto_glue"],
        "design_ref": "DESIGN.md section 7, C15",
        "technique": "contract-based deductive verification (Verus) of the real from_bytes / to_bytes (closures, chunks_exact, itertools tuples modelled by verified adapters); iff-acceptance for byte strings of every length",
        "claim": "from_bytes(b) is proved to return Ok exactly when b[0] is an extension degree d in 1..=6, the remainder is 5+d+2k 32-byte elements with k >= 1 and no trailing "
                 "bytes, and the d leading and the two response scalars are canonical; on success every field is the corresponding 32-byte slot (d1, A, A1, B, r1, s1, "
                 "every L_j/R_j), for byte strings of every length. to_bytes(p) is proved to equal the layout function enc(p) (degree byte, d1, A, A1, B, r1, s1, interleaved L/R). "
                 "extension_degree_from_proof_bytes and ExtensionDegree::try_from(u8) are exact. Pure lemmas over these contracts: enc(p) has length 1 + 32*(5 + d + 2k); decoding then "
                 "re-encoding returns the identical bytes; the encoding of a well-formed proof is accepted and decodes to the same proof field by field; every proof the prover "
                 "outputs with bits*aggregation >= 2 is well-formed (shape postcondition of prove_with_rng). KNOWN FINDING: for bits*aggregation == 1 the prover outputs zero "
                 "rounds and the decoder refuses its own encoding (obligation C15.roundtrip_zero_rounds, listed in known_findings.txt). The forwarding impls of src/ristretto.rs are under contract (unit ristretto_glue): from_fixed_bytes / as_fixed_bytes keep the 32 bytes of a point encoding verbatim, "
                 "decompress / compress / from_uniform_bytes are exactly dalek's functions. The serde wrappers are under contract (unit serde): Serialize::serialize hands "
                 "exactly enc(p) to the serializer's serialize_bytes, and the Deserialize visitor's visit_bytes returns Ok exactly on accept_spec and decodes field by field as "
                 "from_bytes does - for an arbitrary Serializer / error type (serde's own dispatch from deserialize_bytes to visit_bytes is the library's).",
        "assumptions": [
            "Scalar::from_canonical_bytes returns Some(s) iff the 32 bytes are canonical (uninterpreted predicate is_canonical) and then s.as_bytes() are those bytes (dalek contract)",
            "slice::chunks_exact and itertools::tuples are modelled by adapters with explicit cursor state (prelude/90_codec.rs); the pair adapter's next() is verified, its buffer semantics (odd leftover kept) is itertools' documented behaviour",
            "serde is modelled by two trait declarations (prelude/97_serde.rs): Serializer::serialize_bytes with an uninterpreted result, de::Error::custom; the Deserializer's call of Visitor::visit_bytes with the input bytes is serde's / the data format's behaviour (bincode: the length-prefixed byte string)",
            "encodings of scalars are canonical and injective, encodings of compressed points injective (dalek invariants, axioms in spec/lemmas_c15.rs)",
        ],
    },
    "C06": {
        "units": ["prove", "commit", "ctors", "transcripts", "prove_wrapper"],
        "design_ref": "DESIGN.md section 7, C06",
        "technique": "contract-based deductive verification (Verus) of the real prove_with_rng and PedersenGens::commit; iff-contract between Ok and the witness-validity predicate, every `?` exit discharged",
        "claim": "prove_with_rng is proved, for all statements built through the validating constructors and all witnesses built through RangeWitness::init, to return Ok only if "
                 "the witness is valid (as many openings as commitments, equal extension degree, every value below 2^bits (v >> bits == 0, or bits == 64), every opening "
                 "recomputing its commitment under the statement's generators, every promise <= its value, position-wise), and conversely every Err it returns on a valid witness "
                 "with consistent Pedersen generators is a transcript rejection (ProofError::VerificationFailed: an identity point or a zero challenge); all other error and "
                 "panic paths (index, overflow, nonce derivation, padding, split, zero y-power) are proved unreachable. 'Whenever it returns a proof that proof verifies' is the "
                 "undecided algebraic part of C01.",
        "assumptions": [
            "curve25519-dalek multiscalar_mul returns the linear combination msm(scalars, points) and asserts equal lengths",
            "the scalar field has no zero divisors and 1 != 0 (axioms ax_no_zero_div, ax_one_ne_zero): used to show y^n != 0",
            "the labels \"alpha\", \"dL\", \"dR\", \"d\", \"eta\" are at most 16 bytes (axiom ax_label_lens about string literals)",
            "completeness of the folding argument (an honest proof verifies) is not decided here",
        ],
    },
    "C02": {
        "units": ["verify_rel", "verify", "transcripts", "lemmas"],
        "design_ref": "DESIGN.md section 7, C02",
        "technique": "contract-based deductive verification (Verus) of the real verify(): loop invariants pin every scalar of the final multiscalar product to a specification function (closed forms for d and s, reference recurrences for the sums), accumulated over the batch; postcondition 'Ok only if the specified residual is the identity'",
        "claim": "verify() is proved, for every batch, configuration, capacity mix and parsed proof, to return Ok in a verifying mode only if batch_residual(...) == identity, where "
                 "batch_residual is an explicit specification of the whole verification equation: for every proof p with nonzero weight w_p and challenges equal to the transcript "
                 "oracle on the specified log (C04): G_q gets w(r1*e*y^-q*s_q + e^2 z), H_q gets w(s1*e*s_{nm-1-q} - e^2(d_q*y^{nm-q} + z)) for q < n*m and nothing beyond, with "
                 "d_q = z^{2(j+1)} 2^i in closed form and s_q = s_0 * prod of e_j^2 over the set bits of q; commitment j gets w(-e^2 z^{2(j+1)} y^{nm+1}); the value generator gets "
                 "w(r1*y*s1 + e^2(y^{nm+1} z d_sum + (z^2 - z) y_sum)) minus promise_j times the commitment scalar; G'_k gets w*d1_k; A1, B, A, L_j, R_j get w(-e), -w, w(-e^2), "
                 "w(-e^2)e_j^2, w(-e^2)e_j^-2; the static scalars are the interleaving of the G and H scalars of the largest member padded with zeros to the table size. Shape checks "
                 "(L/R counts equal, 2^rounds == n*m, d1 length == degree) and decodability of every point are postconditions of Ok. That the equation implies the range statement "
                 "is knowledge soundness under discrete log and is not decidable here.",
        "assumptions": [
            "curve25519-dalek precomputed vartime_mixed_multiscalar_mul returns msm(static, table) + msm(dynamic) and asserts the two length equalities; Scalar::batch_invert returns element-wise inverses and the product of inverses",
            "reference recurrences are lifted to the published closed forms by pure lemmas (unit lemmas): the doubling trick yields sum_{j=1..2^t} z^2j (lemma_dsum_pair - this is where 'wrong only for aggregation >= 8' would show), y_sum is sum_{i=1..nm} y^i when y != 1 (lemma_ysum), the running products are a*b^q (lemma_mulpow); s_0 is kept as computed (product of inverses of e_1..e_r, y, y-1 times y(y-1)), equal to prod e_j^-1 when y != 1 (probability 1 - 2^-252) - that last identity is not discharged",
            "that the precomputation table of a RangeParameters object consists of its G_i/H_i generators interleaved is part of BulletproofGens::new's contract (unit gens)",
            "the relation implies value - promise in [0, 2^bits) only under the discrete-log assumption (paper); not a deductive fact",
        ],
    },
    "C05": {
        "units": ["verify", "verify_rel", "transcripts", "codec", "lemmas", "ristretto_glue"],
        "design_ref": "DESIGN.md section 7, C05",
        "technique": "contract-based deductive verification (Verus): every proof element and statement field is proved to occur in the specified transcript log before the challenges that must depend on it, or in the specified residual; shape checks and point decoding are postconditions of Ok; rejections are Err values (panic freedom)",
        "claim": "Proved on the real verifier: (i) A, every L_j/R_j, A1, B and all statement data are absorbed before the challenges that follow them (C04) and r1, s1, every d1_k are absorbed "
                 "before the batch weights are derived (C08); (ii) every scalar and point of the proof and every commitment, promise and generator occurs in the specified residual "
                 "with the specified coefficient (C02); (iii) Ok implies equal L/R counts, 2^rounds == bits*aggregation, d1 length == extension degree for every member, and that "
                 "every point of every member decodes; (iv) every rejection is an Err value, never a panic (C16); (v) a serialized proof decodes only if every scalar slot is canonically encoded and the shape is exact (C15.decode_accepts_only_spec), so re-encoding a scalar as scalar + group order is refused at decoding. That an altered element makes the residual nonzero needs "
                 "independence of the generators (discrete log) and the random oracle: not decidable by contracts.",
        "assumptions": [
            "rejection of a single altered element is a cryptographic statement (discrete log + random oracle) and is not claimed; what is proved is that no element is ignored",
            "nonzero-ness of the coefficient of every commitment, of A, A1, B and of every L_j / R_j is a proved lemma (C05.lemma_every_dynamic_coefficient_nonzero) from w, e, y, z, e_j != 0, which the weight and challenge contracts establish; for the response scalars r1, s1, d1 (which enter the generator coefficients) no such lemma is stated",
        ],
    },
    "C07": {
        "units": ["prove", "transcripts", "verify", "verify_rel"],
        "design_ref": "DESIGN.md section 7, C07",
        "technique": "contract-based deductive verification (Verus): prover refusal iff value < promise (part of the C06 iff-contract), promise absorbed as promise_val (None == Some(0)), verifier range check, promise term of the value-generator scalar",
        "claim": "Proved: the prover returns Ok only if promise_j <= value_j for every position j and never refuses value == promise; both transcripts absorb promise_val(p_j) so an "
                 "absent promise and Some(0) are indistinguishable; the consistency check returns Ok only if every present promise p satisfies p >> bits == 0 (bits < 64); the verifier's "
                 "value-generator scalar contains exactly - promise_j * w(-e^2 z^{2(j+1)} y^{nm+1}) for each present promise, position-wise, and nothing for an absent one. That a proof "
                 "made under p is rejected under p' != p is the random-oracle binding of the transcript (the promise is in the log) - cryptographic, assumed.",
        "assumptions": ["binding of the proof to the promise vector is by the transcript (random oracle), not a deductive fact"],
    },
    "C08": {
        "units": ["verify", "verify_rel", "transcripts", "nonce", "nullrng"],
        "design_ref": "DESIGN.md section 7, C08",
        "technique": "contract-based deductive verification (Verus): ghost model of merlin's transcript RNG (key = log, witness rekeys, external draw); weight provenance as loop invariants of the real verify()",
        "claim": "Proved on the real verify(): for every proof p of a chunk the responses r1, s1 and every d1_k are absorbed into transcript p, an RNG keyed by that complete log yields one "
                 "u64 that is absorbed into the weight transcript under label \"proof\"; the weight RNG is built once, from the weight transcript after ALL proofs were absorbed; "
                 "weight p is the p-th first-nonzero draw of that single stream (random_not_zero, verified against its loop), hence nonzero; each weight multiplies every term "
                 "contributed by its proof and nothing else (C02). That the resulting function behaves like a random oracle, so that defects cannot be made to cancel, is assumed.",
        "assumptions": ["merlin's TranscriptRng output is an uninterpreted PRF of (absorbed log, rekey witnesses, external draw, counter); NullRng is stateless and yields zeros",
                        "unpredictability of the weights (ratios change with every response scalar) is the PRF/random-oracle assumption"],
    },
    "C10": {
        "units": ["verify", "nonce"],
        "design_ref": "DESIGN.md section 7, C10",
        "technique": "contract-based deductive verification (Verus): one position-wise mask specification for both recovering modes; totality of nonce derivation on the verifier's arguments",
        "claim": "Proved: in RecoverOnly and RecoverAndVerify every Ok result carries, for every member, the same value mask_spec(seed, proof, challenges) (one specification function, "
                 "independent of the mode), None in VerifyOnly and for members without a seed; the value is a function of the statement's seed through the nonce KDF only; nonce() "
                 "cannot fail on the labels and indices the verifier uses, so a wrong seed yields a value, not an error. The specification of the residual (C02) and of the weights (C08) "
                 "does not mention the seed. Not decided: that a different seed yields a different value (PRF property of Blake2b); the full iff-characterisation of Ok/Err "
                 "(needed to state that the verdict is literally the same function with and without a seed) is not written.",
        "claim_refusals": "Refusals (obligations C10.verify_refuses_only_for_a_reason, C03.batch_refuses_only_for_a_reason, C03.consistency_refuses_only_inconsistent): verify_batch, verify and the "
                 "consistency check return Err only if the batch is empty / length-mismatched, its members disagree (batch_consistent), some member is not well shaped (L/R counts, 2^rounds == "
                 "bits*aggregation, a point that does not decode) or the error is ProofError::VerificationFailed (a transcript rejection or the final equation) - a condition that mentions "
                 "neither the recovery seeds nor the requested mode; every size-overflow and nonce-derivation exit is proved unreachable for such batches. So a refusal that is not a "
                 "VerificationFailed is a function of shapes alone, identical with and without seeds and in all three modes.",
        "assumptions": ["a different seed gives a different mask only under the PRF assumption on keyed Blake2b",
                        "verdict independence is argued from the seed-free residual/weight specifications; an Err-characterisation of verify is not proved"],
    },
    "C13": {
        "units": ["prove", "prove_msg", "nonce", "transcripts"],
        "design_ref": "DESIGN.md section 7, C13",
        "technique": "contract-based deductive verification (Verus): ghost-state model of the transcript RNG; provenance of every nonce as loop invariants / tagged assertions on the real prove_with_rng; random_not_zero verified against its rejection loop",
        "claim": "Proved on the real prover: without a recovery seed, alpha_k, every round's dL_k and dR_k, d_k, eta_k, and always r and s, are successive first-nonzero draws "
                 "(Scalar::random_not_zero, itself verified: nonzero, value = the first nonzero output of the stream, counter advanced past it) of the transcript RNG - so they are "
                 "nonzero and come from strictly increasing counters of one keyed stream, re-keyed after every absorbed prover message; with a seed, alpha_k, dL_jk, dR_jk, d_k, eta_k "
                 "are exactly nonce(seed, label, j?, k) for the documented labels and indices while r and s are still RNG draws. Not decidable: that distinct draws or distinct hash "
                 "inputs give distinct values, and 'differ between two runs' (two-run, probabilistic). The position of each nonce inside A, L_j, R_j, A1, B as a multiscalar "
                 "expression is not yet a stated obligation.",
        "assumptions": ["merlin TranscriptRng outputs are an uninterpreted function of (key, counter); value-level distinctness is the PRF assumption",
                        "seed-derived nonces are hash outputs and not provably nonzero"],
    },
    "C14": {
        "units": ["transcripts", "prove"],
        "design_ref": "DESIGN.md section 7, C14",
        "technique": "contract-based deductive verification (Verus): ghost key of merlin's transcript RNG (absorbed log, witness rekey bytes, external draw); real RangeProofTranscript and prove_with_rng proved to rekey with the serialised witness and to rebuild after every absorption",
        "claim": "Proved: RangeProofTranscript::new serialises the witness as le64(v_j) || bytes(r_j0) || ... per opening, in order, and every RNG it builds has the ghost key "
                 "(current transcript log, [(\"witness\", those bytes)], draw from the external RNG); challenges_y_z, challenge_round_e and challenge_final_e rebuild the RNG from "
                 "the updated log (the new message included) before drawing the challenge; in prove_with_rng the RNG key carries the witness bytes at every draw, every RNG-derived "
                 "nonce is drawn from range_proof_transcript.as_mut_rng() (the external rng is mutably borrowed by the transcript for its whole lifetime, so Rust's borrow rules "
                 "exclude any other use). Assumed: that this keyed function is a PRF in the witness even when the external RNG output is constant (merlin's design claim).",
        "assumptions": ["merlin's rekey_with_witness_bytes / finalize are modelled by the ghost key; PRF security in the witness key is assumed",
                        "injectivity of the witness serialisation for a fixed extension degree is not separately proved"],
    },
    "C01": {
        "alias_tags": {"verify_rel": ["C02"], "verify": ["C04", "C05"], "prove": ["C04", "C06"], "transcripts": ["C04"], "gens_new": ["C11", "C12"], "nonce": ["C09"]},
        "units": ["prove", "prove_msg", "verify", "verify_rel", "transcripts", "ctors", "commit", "gens_new", "nonce", "prove_wrapper"],
        "design_ref": "DESIGN.md section 7, C01",
        "technique": "contract-based deductive verification (Verus): prover totality on valid witnesses, output shape agreement with the verifier's shape checks, shared padding contract; the algebraic completeness of the folding argument is explicitly undecided",
        "claim": "Decided part: for every statement built through the validating constructors and every valid witness, prove_with_rng returns a proof unless the transcript rejects "
                 "(identity point or zero challenge: ProofError::VerificationFailed) - every other error, index, overflow and multiscalar-length obligation is proved unreachable for "
                 "all bit lengths, aggregation factors <= capacity, extension degrees, values (0, 2^n-1, value == promise included), seeded or not, any RNG; the proof it returns has "
                 "li.len() == ri.len() == log2(n*m) and d1.len() == degree, exactly what the verifier's shape checks (proved in unit verify) demand, and both sides compute the same "
                 "padding for every capacity >= m; prover and verifier derive their challenges from the same specified log (C04 obligations) and the verifier evaluates exactly "
                 "the specified equation (C02 obligations - necessary for completeness, so their failure is reported under C01 too). Unit prove_msg pins every scalar and point the prover computes to the honest-prover specification spec/spec_prove_msg.rs (postcondition C01.prove_messages_are_honest, for all sizes and round counts): the bit decomposition of value - promise (a_L = bits, a_R = bits - 1), A = <a_L,a_R interleaved, zero-padded | precomputed table> + <alpha | G'>, the d vector in closed form z^(2(j+1)) 2^i, the inner-product inputs a_L - z and a_R + d_q y^(nm-q) + z, and per folding round the weighted inner products c_L, c_R, the messages L_t, R_t as multiscalar expressions over the t-th folded state, the folded vectors a', b', G', H' (recursion pst/fold_st), then A1, B, r1, s1 (and d1, C09) - so a change of the prover's algebra fails a named obligation. UNDECIDED, stated as such: the pure-algebra theorem that this specified message sequence satisfies the specified verification equation (batch_residual == identity), i.e. completeness of the weighted-inner-product argument as mathematics; both sides of that theorem are now specifications the code is proved to implement, the theorem itself is not proved.",
        "assumptions": ["the theorem 'prover_msgs_ok(...) implies batch_residual(...) == identity' (completeness of the weighted-inner-product argument over the abstract field/group) is not proved; prover and verifier are each proved against their side of it",
                        "'for whatever RNG' holds up to the transcript-rejection event (probability about 2^-250 per challenge)"],
    },
    "C19": {
        "standin_replay": "bounded, not proof: eight proofs serialised by the unchanged tree (replay/vectors.txt: bit lengths 1..64, aggregation 1..8, extension degrees 1..6, "
                          "with and without seed and promises, capacity above the aggregation factor) must still decode, re-encode identically, be accepted in all three modes "
                          "and yield the recorded masks under statements rebuilt from the same seeds",
        "units": ["transcripts", "nonce", "codec", "gens_chain", "pedersen_statics", "ristretto_glue"],
        "design_ref": "DESIGN.md section 7, C19",
        "technique": "contract-based deductive verification (Verus): the released wire format written once as specification functions (transcript layout, nonce KDF byte layout, proof byte layout); the real code proved to conform",
        "claim": "Conformance to the frozen 0.4.0 wire specification as written in /verif/spec: the transcript layout full_log (domain separator, labels H, G, N, T, M, Ci, "
                 "'vi - minimum_value', A, y, z, L, R, e, A1, B, r1, s1, d1; order; 8-byte LE integers; 32-byte encodings), the nonce KDF input layout (0x00 || seed || ['j' || le32(j)] "
                 "|| ['k' || le32(k)], label as Blake2b persona, empty salt, wide reduction) and the proof byte layout (degree byte, d1, A, A1, B, r1, s1, interleaved L/R). Any change "
                 "of a label, hash input, index encoding or absorption order fails a named obligation. NOT decided: that recorded 0.4.0 proofs verify and that an independent "
                 "implementation interoperates (replaying vectors is testing; there is no second implementation to put under contract). The generator derivation primitives are "
                 "under contract as well: the 'GeneratorsChain' || label SHAKE256 input and 64-byte stride (unit gens_chain) and the masking base point labels "
                 "'RISTRETTO_MASKING_BASEPOINT_' || decimal(k + 1) hashed with SHA3-512 (unit pedersen_statics).",
        "assumptions": ["the specification functions were transcribed from the 0.4.0 sources and the RFC; agreement with recorded vectors is not checked here",
                        "SHAKE256, SHA3-512, from_uniform_bytes and the decimal rendering of an index are uninterpreted functions; the per-party labels 'G'/'H' || le32(i) are obligations of C11 (unit gens_new), not repeated here"],
    },
    "C11": {
        "standin_replay": "bounded, not proof: the input-free generator statics (value generator, six blinding generators, their compressed forms) and the vector generators for "
                          "(bits, capacity) in {(4,1),(4,4),(8,2),(64,2)} and their 4x capacities are computed by the real crate and checked for non-identity, pairwise distinctness, "
                          "capacity independence and compress() agreement, and compared with an independent recomputation of the documented derivations (SHAKE256 chain, SHA3-512 hash to "
                          "point, Ristretto basepoint) done with the sha3 crate directly",
        "units": ["gens_new", "gens_chain", "pedersen_ctor", "pedersen_statics", "gens", "ctors", "ristretto_glue"],
        "design_ref": "DESIGN.md section 7, C11",
        "technique": "contract-based deductive verification (Verus) of the real BulletproofGens::new, generator iterators and accessors against a SHAKE256 / hash-to-group model",
        "claim": "Proved: BulletproofGens::new(n, c) returns Ok iff c <= 2^32, and then g_vec[i][j] is the j-th point of the generator chain labelled 'G' || le32(i) and h_vec[i][j] "
                 "the j-th point of the chain labelled 'H' || le32(i), for all i < c, j < n; the precomputation table is exactly the interleaving of the flattened G and H vectors; "
                 "g_iter / h_iter (the real AggregatedGensIter::next, verified against vstd's iterator laws) yield the first n*m generators party-major; RangeStatement::init stores "
                 "compress(commitment_i) position-wise; the accessors return the stored fields. The derivation primitives themselves are under contract (unit gens_chain): "
                 "GeneratorsChain::new absorbs exactly 'GeneratorsChain' || label into SHAKE256, GeneratorsChain::next returns from_uniform_bytes of the next 64 output bytes, and "
                 "hash_from_bytes_sha3_512(x) = from_uniform_bytes(SHA3-512(x)) - against uninterpreted SHAKE256 / SHA3-512 functions; create_pedersen_gens_with_extension_degree(d) "
                 "(unit pedersen_ctor) returns the Ristretto basepoint as value generator and exactly the first d masking base points with their compressed forms, with "
                 "g_base_vec.len() == d; the two once-initialised tables it reads are under contract too (unit pedersen_statics): the initialiser closures handed to OnceCell::get_or_init "
                 "are proved to fill entry k with hash_from_bytes_sha3_512('RISTRETTO_MASKING_BASEPOINT_' || decimal(k + 1)) and with its compressed form, for all six k. Determinism is a "
                 "consequence of the functional contracts. NOT decidable by contracts: pairwise distinctness and non-identity (facts about concrete SHAKE/SHA3 outputs), that "
                 "OnceCell hands every thread the same initialised value (its documented behaviour, assumed), and the decimal digits `usize::to_string` produces (uninterpreted).",
        "assumptions": ["GeneratorsChain::new(label).take(n) is modelled as the first n points p_from_uniform(SHAKE256('GeneratorsChain' || label)[64j..64j+64]) (site-specific rewrite R-CHAINTAKE: `take(n)` of the chain is its first n `next()` results; new / next themselves are verified in unit gens_chain)",
                        "byteorder::LittleEndian::write_u32, Iterator::flat_map over |v| v.iter(), itertools::interleave and the dalek precomputation constructor are modelled by their documented sequence semantics",
                        "OnceCell::get_or_init on a function-local static is modelled as 'returns a reference to a value the initialiser closure returned' (R-ONCE); `<str>.to_owned() + &i.to_string()` as bytes(str) ++ decimal(i) with decimal uninterpreted (R-STRCAT); `(a..)` under zip as the sequence a, a+1, ... (R-RANGEFROM)",
                        "the value generator is dalek's RISTRETTO_BASEPOINT_POINT constant (external)"],
    },
    "C12": {
        "units": ["gens_new", "gens", "ctors", "verify", "verify_rel", "prove"],
        "design_ref": "DESIGN.md section 7, C12",
        "technique": "contract-based deductive verification (Verus): generator (i, j) is a function of (label, i, j) only; padding contract; multiscalar length preconditions for every capacity on both sides; untouched tail of the shared scalar vectors",
        "claim": "Proved: generator j of party i is the chain point of ('G'|'H', i, j), so two parameter sets of the same bit length agree on every generator both contain "
                 "(lemma_capacity_independent), and the table of capacity c restricted to its first 2*n*m entries is the same interleaving; compute_generator_padding returns "
                 "2*n*c - 2*n*m exactly when it fits; the prover's and the verifier's precomputed multiscalar calls meet the dalek 'static scalars == table size' precondition for "
                 "every capacity >= m and every batch mixture (the verifier uses the largest member's table); a proof with n*m below the batch maximum leaves the tail of the shared "
                 "G/H scalar vectors untouched and the padding scalars are zero. The consistency check is proved to return Ok only if every member agrees with the largest one on the "
                 "common party-major prefix of both generator vectors.",
        "assumptions": ["same as C11 for the chain model", "Iterator::any / zip are modelled by their documented sequence semantics"],
    },
}

# the "refused only for a reason" obligations are shared by C10 (verdict independence), C03 (the 'only if' of batch refusal) and C01 (the verifier does
# not refuse honest proofs for a spurious reason)
_REFUSALS = PROPS["C10"].pop("claim_refusals")
PROPS["C10"]["claim"] += " " + _REFUSALS
PROPS["C03"]["claim"] += " " + _REFUSALS
PROPS["C01"]["claim"] += " Verifier side of completeness at code level: " + _REFUSALS

PROPS["C06"]["claim"] += " The `prove` entry point (feature rand) is under contract too (unit prove_wrapper): it is proved to return exactly what prove_with_rng's contract allows for the caller's own transcript, statement and witness."

PROPS["C08"]["claim"] += ' NullRng, the generator handed to merlin when the weight RNG is built, is under contract (unit nullrng): fill_bytes / try_fill_bytes overwrite the whole buffer with zeros, so the weights are a function of the transcripts only.'

PROPS["C11"]["claim"] += ' BulletproofGens::clone (a hand-written Clone impl) is proved to return the same capacities, tables with the same content and the same precomputation.'

PROPS["C09"]["claim"] += " The mask type itself is part of the check: ExtendedMask::assign stores the recovered components unchanged and ExtendedMask::blindings returns them for every non-empty mask (unit ctors)."
