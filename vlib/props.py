# Per-property configuration: which units decide it, what is claimed, what stays assumed / undecided.
# (The property statements themselves live in properties.jsonl and are never edited.)

COMMON_ASSUMPTIONS = [
    "Verus 0.2026.09.13 + Z3 are sound; --no-lifetime is passed (rustc borrow-checks the real crate instead)",
    "the extraction rules of DESIGN.md section 3 preserve semantics (each application is listed in coverage.rule_applications)",
    "R-MONO: what is proved for the abstract group type P holds for every P meeting the assumed group/encoding contracts (parametricity)",
    "64-bit target (global size_of usize == 8); machine integers are machine integers (overflow is checked, not assumed away)",
    "dependency contracts listed in coverage.trusted_base (curve25519-dalek, merlin, blake2, sha3, std gaps, iterator shims); panics inside dependencies whose stated preconditions hold are assumed absent",
]

PROPS = {
    "C17": {
        "units": ["ctors"],
        "design_ref": "DESIGN.md section 7, C17",
        "technique": "contract-based deductive verification (Verus) of the real constructors, extracted mechanically on every run; iff-postconditions",
        "claim": "Every validating constructor (RangeParameters::init, RangeStatement::init, RangeWitness::init, CommitmentOpening::r_len/new, "
                 "ExtendedMask::assign/blindings, ExtensionDegree::try_from for u8 and usize, PedersenGens::commit) is proved, for all arguments, to return Ok "
                 "exactly on the documented domain and to store its arguments unchanged; panic freedom of the same bodies is part of the obligations.",
        "assumptions": [
            "usize::is_power_of_two is assumed to equal vstd's is_pow2 (0 is not a power of two)",
            "RangeParameters::init additionally refuses capacities above u32::MAX (from BulletproofGens::new's u32 party index); outside C17's quantified range 0..=130",
            "BulletproofGens::new's Ok-condition is taken from its contract (stub here; its body is under contract in unit gens)",
        ],
    },
}
