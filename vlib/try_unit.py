import sys, json
sys.path.insert(0, '/verif')
from vlib import build, units
name = sys.argv[1]
try:
    path, log = build.assemble(name, units.UNITS[name])
except build.Inconclusive as e:
    print("INCONCLUSIVE", e); sys.exit(2)
r = build.run_verus(path, rlimit=int(sys.argv[2]) if len(sys.argv) > 2 else 60, use_cache=False)
js = r["json"]
if js: print(js.get("verification-results"))
for d in r["diagnostics"]:
    if d.get("level") == "error":
        print(d["rendered"][:1500])
for l in r["stderr_other"][:20]: print("ERR:", l)
if js and "times-ms" in js:
    fb=[f for m in js['times-ms'].get('smt',{'smt-run-module-times':[]})['smt-run-module-times'] for f in m['function-breakdown']]
    fb.sort(key=lambda f:-f['time-micros'])
    for f in fb[:6]: print(f['function'],f['time-micros']/1e6,f['rlimit'],f['success'])
print("wall", r["wall_s"])
