# Replay on the real crate: builds /verif/replay against the current working tree of /repo and runs the directed input family
# of a property. Used only to turn a failed / unreachable obligation into a demonstrated failing input (never to pass a check).
import json, os, shutil, subprocess, time
VERIF = os.path.dirname(os.path.dirname(os.path.abspath(__file__)))
REPO = os.environ.get("VERIF_REPO", "/repo")


def _crate_dir():
    src = os.path.join(VERIF, "replay")
    if os.path.abspath(REPO) == "/repo":
        return src
    d = os.path.join(os.environ.get("VERIF_BUILD", os.path.join(VERIF, "build")), "replay_crate")
    os.makedirs(os.path.join(d, "src"), exist_ok=True)
    os.makedirs(os.path.join(d, ".cargo"), exist_ok=True)
    shutil.copyfile(os.path.join(src, "src", "main.rs"), os.path.join(d, "src", "main.rs"))
    shutil.copyfile(os.path.join(src, ".cargo", "config.toml"), os.path.join(d, ".cargo", "config.toml"))
    shutil.copyfile(os.path.join(src, "vectors.txt"), os.path.join(d, "vectors.txt"))
    t = open(os.path.join(src, "Cargo.toml")).read().replace('path = "/repo"', 'path = "%s"' % os.path.abspath(REPO))
    open(os.path.join(d, "Cargo.toml"), "w").write(t)
    return d


def build():
    d = _crate_dir()
    lock = os.path.join(REPO, "Cargo.lock")
    if os.path.exists(lock):
        shutil.copyfile(lock, os.path.join(d, "Cargo.lock"))
    env = dict(os.environ, CARGO_NET_OFFLINE="true")
    r = subprocess.run(["cargo", "build", "--release", "--offline"], cwd=d, env=env, stdout=subprocess.PIPE, stderr=subprocess.STDOUT, text=True)
    if r.returncode != 0:
        return None, r.stdout[-3000:]
    return os.path.join(d, "target", "release", "bpp-replay"), ""


def search(prop, case=None, timeout=900):
    """returns dict(status='fail'|'nofail'|'unavailable', case, failure, cases_run, wall_s, detail)"""
    t0 = time.time()
    exe, err = build()
    if exe is None:
        return {"status": "unavailable", "detail": "replay binary does not build against the current tree: " + err[-1500:], "wall_s": time.time() - t0}
    args = [exe, "run", prop, case] if case else [exe, "search", prop]
    try:
        r = subprocess.run(args, stdout=subprocess.PIPE, stderr=subprocess.PIPE, text=True, timeout=timeout)
    except subprocess.TimeoutExpired:
        return {"status": "unavailable", "detail": "replay timed out", "wall_s": time.time() - t0}
    line = (r.stdout.strip().splitlines() or [""])[-1]
    try:
        d = json.loads(line)
    except Exception:
        return {"status": "unavailable", "detail": "replay produced no result: " + (r.stdout + r.stderr)[-800:], "wall_s": time.time() - t0}
    d["status"] = "fail" if d.get("failure") else "nofail"
    d["wall_s"] = round(time.time() - t0, 1)
    return d


def fingerprint(prop, timeout=900):
    """digest of everything the crate returns on the directed inputs (fixed seeds); None when it cannot be computed"""
    exe, err = build()
    if exe is None:
        return None
    try:
        r = subprocess.run([exe, "fingerprint", prop], stdout=subprocess.PIPE, stderr=subprocess.PIPE, text=True, timeout=timeout)
        return json.loads((r.stdout.strip().splitlines() or ["{}"])[-1]).get("fingerprint")
    except Exception:
        return None
