# Kani harnesses on the compiled real crate (thorough tier). Filled in by vlib/kani.py:run_harnesses.
import os, re, shutil, subprocess, time
VERIF = os.path.dirname(os.path.dirname(os.path.abspath(__file__)))


def run_harnesses(names):
    out = []
    src = os.path.join(VERIF, "kani")
    if not os.path.isdir(src):
        return [{"harness": n, "status": "UNAVAILABLE", "kind": "kani", "output": ""} for n in names]
    repo = os.environ.get("VERIF_REPO", "/repo")
    kdir = src
    if os.path.abspath(repo) != "/repo":
        kdir = os.path.join(os.environ.get("VERIF_BUILD", os.path.join(VERIF, "build")), "kani_crate")
        os.makedirs(os.path.join(kdir, "src"), exist_ok=True); os.makedirs(os.path.join(kdir, ".cargo"), exist_ok=True)
        shutil.copyfile(os.path.join(src, "src", "lib.rs"), os.path.join(kdir, "src", "lib.rs"))
        shutil.copyfile(os.path.join(src, ".cargo", "config.toml"), os.path.join(kdir, ".cargo", "config.toml"))
        open(os.path.join(kdir, "Cargo.toml"), "w").write(open(os.path.join(src, "Cargo.toml")).read().replace('path = "/repo"', 'path = "%s"' % os.path.abspath(repo)))
    shutil.copyfile(os.path.join(repo, "Cargo.lock"), os.path.join(kdir, "Cargo.lock")) if os.path.exists(os.path.join(repo, "Cargo.lock")) else None
    env = dict(os.environ, CARGO_NET_OFFLINE="true")
    for spec in names:
        name, kind = (spec.split(":") + ["kani-complete"])[:2]
        t0 = time.time()
        cmd = ["cargo", "kani", "-Z", "function-contracts", "-Z", "stubbing", "-Z", "concrete-playback", "--concrete-playback=print", "--harness", name]
        try:
            r = subprocess.run(cmd, cwd=kdir, env=env, stdout=subprocess.PIPE, stderr=subprocess.STDOUT, text=True, timeout=3000)
            txt = r.stdout
            if "VERIFICATION:- SUCCESSFUL" in txt: st = "SUCCESS"
            elif "VERIFICATION:- FAILED" in txt: st = "FAILED"
            else: st = "ERROR rc=%d" % r.returncode
        except subprocess.TimeoutExpired as e:
            txt = (e.stdout or "") if isinstance(e.stdout, str) else ""
            st = "TIMEOUT"
        cex = None
        if st == "FAILED":
            m = re.search(r"Concrete playback unit test.*?```(.*?)```", txt, re.S)
            fails = re.findall(r"Failed Checks: (.*)", txt)
            cex = {"failed_checks": fails[:5], "concrete_playback": (m.group(1).strip()[:2500] if m else None)}
        out.append({"harness": name, "kind": kind, "status": st, "wall_s": round(time.time() - t0, 1), "output": txt[-6000:], "cmd": " ".join(cmd), "counterexample": cex})
    return out
