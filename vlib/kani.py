# Kani harnesses on the compiled real crate (thorough tier). Filled in by vlib/kani.py:run_harnesses.
import os, re, shutil, subprocess, time
VERIF = os.path.dirname(os.path.dirname(os.path.abspath(__file__)))


def run_harnesses(names):
    out = []
    kdir = os.path.join(VERIF, "kani")
    if not os.path.isdir(kdir):
        return [{"harness": n, "status": "UNAVAILABLE", "kind": "kani", "output": ""} for n in names]
    repo = os.environ.get("VERIF_REPO", "/repo")
    shutil.copyfile(os.path.join(repo, "Cargo.lock"), os.path.join(kdir, "Cargo.lock")) if os.path.exists(os.path.join(repo, "Cargo.lock")) else None
    env = dict(os.environ, CARGO_NET_OFFLINE="true")
    for spec in names:
        name, kind = (spec.split(":") + ["kani-complete"])[:2]
        t0 = time.time()
        cmd = ["cargo", "kani", "-Z", "function-contracts", "-Z", "stubbing", "--harness", name]
        try:
            r = subprocess.run(cmd, cwd=kdir, env=env, stdout=subprocess.PIPE, stderr=subprocess.STDOUT, text=True, timeout=3000)
            txt = r.stdout
            if "VERIFICATION:- SUCCESSFUL" in txt: st = "SUCCESS"
            elif "VERIFICATION:- FAILED" in txt: st = "FAILED"
            else: st = "ERROR rc=%d" % r.returncode
        except subprocess.TimeoutExpired as e:
            txt = (e.stdout or "") if isinstance(e.stdout, str) else ""
            st = "TIMEOUT"
        out.append({"harness": name, "kind": kind, "status": st, "wall_s": round(time.time() - t0, 1), "output": txt[-6000:], "cmd": " ".join(cmd)})
    return out
