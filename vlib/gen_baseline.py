#!/usr/bin/env python3
# Records, per property, the obligation ids generated on the unchanged tree (from the evidence of a clean quick run). The driver
# refuses to report OK when one of them can no longer be generated (an annotation was orphaned by a change of the code): the
# property is then undecided, not proved.
import json, os, sys
V = os.path.dirname(os.path.dirname(os.path.abspath(__file__)))
sys.path.insert(0, V)
from vlib import props
out = {}
for p in sorted(props.PROPS):
    e = json.load(open(os.path.join(V, "evidence", p + ".json")))
    if e["coverage"]["obligations"] != e["coverage"]["discharged"] or e.get("violations"):
        print("evidence of %s is not from a clean run" % p); sys.exit(1)
    out[p] = sorted(set(i for i in e["coverage"]["obligation_ids"] if not i.startswith("kani:")))
json.dump(out, open(os.path.join(V, "obligations_baseline.json"), "w"), indent=0, sort_keys=True)
print("baseline:", {k: len(v) for k, v in out.items()})
