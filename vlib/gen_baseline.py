#!/usr/bin/env python3
# Records, per property, the obligation ids generated on the unchanged tree (from the evidence of a clean quick run). The driver
# refuses to report OK when one of them can no longer be generated (an annotation was orphaned by a change of the code): the
# property is then undecided, not proved.
import json, os, sys
V = os.path.dirname(os.path.dirname(os.path.abspath(__file__)))
sys.path.insert(0, V)
from vlib import props
out = {}
for p in sorted(props.PROPS):
    e = json.load(open(os.path.join(V, "evidence", p + ".json")))
    if e["coverage"]["obligations"] != e["coverage"]["discharged"] or e.get("violations"):
        print("evidence of %s is not from a clean run" % p); sys.exit(1)
    out[p] = sorted(set(i for i in e["coverage"]["obligation_ids"] if not i.startswith("kani:")))
json.dump(out, open(os.path.join(V, "obligations_baseline.json"), "w"), indent=0, sort_keys=True)
print("baseline:", {k: len(v) for k, v in out.items()})

# member functions of every impl block a unit extracts from (a function added later is reported as uncovered code)
from vlib import build, units
mem = {}
for un, u in units.UNITS.items():
    try:
        path, xlog = build.assemble(un, u)
    except build.Inconclusive as e:
        print("cannot assemble", un, e); sys.exit(1)
    cur = set()
    for line in open(xlog):
        p = line.rstrip("\n").split("\t")
        if p[0] == "RULE" and p[2].startswith("MEMBERS "):
            rest = p[2][len("MEMBERS "):]
            hdr, names = (rest.split(" ", 1) + [""])[:2]
            for nme in names.split(","):
                if nme: cur.add("%s %s %s" % (os.path.relpath(p[1], build.REPO), hdr, nme))
    mem[un] = sorted(cur)
json.dump(mem, open(os.path.join(V, "members_baseline.json"), "w"), indent=0, sort_keys=True)
print("member baseline:", {k: len(v) for k, v in mem.items()})
