# Assembles one Verus file per verification unit from /repo's current working tree and runs Verus on it.
import hashlib, json, os, re, subprocess, sys, time

VERIF = os.path.dirname(os.path.dirname(os.path.abspath(__file__)))
REPO = os.environ.get("VERIF_REPO", "/repo")
BUILD = os.environ.get("VERIF_BUILD", os.path.join(VERIF, "build"))
VX = os.path.join(VERIF, "vx", "target", "release", "vx")

DEFAULT_RENAMES = ("enumerate,chain,cloned,copied,fold,any,sum,unzip,interleave,tuples,to_le_bytes,flat_map,by_ref,"
                   "chunks,chunks_mut,chunks_exact,shr")


class Inconclusive(Exception):
    pass


def ensure_vx():
    if os.path.exists(VX):
        return
    env = dict(os.environ, CARGO_NET_OFFLINE="true")
    r = subprocess.run(["cargo", "build", "--release", "--offline"], cwd=os.path.join(VERIF, "vx"), env=env,
                       stdout=subprocess.PIPE, stderr=subprocess.STDOUT, text=True)
    if r.returncode != 0:
        raise Inconclusive("cannot build extractor vx: " + r.stdout[-2000:])


def run_vx(args, logfile):
    r = subprocess.run([VX] + args + ["--log", logfile], stdout=subprocess.PIPE, stderr=subprocess.PIPE, text=True)
    if r.returncode == 3:
        raise Inconclusive("extraction anchor lost / source not parseable: " + r.stderr.strip()[:1500])
    if r.returncode != 0:
        raise Inconclusive("extractor failed: " + r.stderr.strip()[:1500])
    return r.stdout


def assemble(unit_name, unit, tolerant=False):
    """returns (path of generated file, rule log path)"""
    ensure_vx()
    os.makedirs(BUILD, exist_ok=True)
    out_path = os.path.join(BUILD, unit_name + ".rs")
    log_path = os.path.join(BUILD, unit_name + ".xlog")
    if os.path.exists(log_path):
        os.remove(log_path)
    contracts = [os.path.join(VERIF, "contracts", c) for c in unit.get("contracts", [])]
    parts = []

    def text_file(rel):
        p = os.path.join(VERIF, rel)
        parts.append("//@file %s\n" % rel + open(p).read() + "\n")

    for f in unit["prelude"]:
        text_file(os.path.join("prelude", f))
    for piece in unit["pieces"]:
        kind = piece["kind"]
        if kind == "text":
            text_file(piece["file"])
        elif kind == "raw":
            parts.append("//@file <unit:%s>\n" % unit_name + piece["text"] + "\n")
        elif kind == "items":
            src = os.path.join(REPO, piece["src"])
            args = [src, "--items", ",".join(piece["items"])]
            txt = run_vx(args, log_path)
            parts.append("//@file <extracted items %s>\n" % piece["src"] + txt + "\n")
        elif kind == "fns":
            src = os.path.join(REPO, piece["src"])
            args = [src, "--label", piece["src"]]
            if piece.get("opdesugar", True):
                args.append("--opdesugar")
            if piece.get("mapcollect"):
                args.append("--mapcollect")
            if piece.get("noextendmap"):
                args.append("--noextendmap")
            if piece.get("notryinto"):
                args.append("--notryinto")
            if tolerant:
                args.append("--tolerant")
            args += ["--renames", piece.get("renames", DEFAULT_RENAMES)]
            if contracts:
                args += ["--contracts", ",".join(contracts)]
            if piece.get("fns"):
                args += ["--fns", ",".join(piece["fns"])]
            if piece.get("stubs"):
                args += ["--stubs", ",".join(piece["stubs"])]
            if piece.get("impl_filter"):
                args += ["--impl-filter", piece["impl_filter"]]
            if piece.get("prefix"):
                args += ["--key-prefix", piece["prefix"]]
            for o in piece.get("opaque", []):
                args += ["--opaque", o]
            for o in piece.get("fn_mono", []):
                args += ["--fn-mono", o]
            for o in piece.get("hoist", []):
                args += ["--hoist", o]
            txt = run_vx(args, log_path)
            subst = list(piece.get("subst", []))
            if tolerant and subst and os.path.exists(log_path):
                # site-specific substitutions are keyed on code text: follow the renamings of locals the extractor reported
                ren = {}
                for line in open(log_path):
                    p = line.rstrip("\n").split("\t")
                    if p[0] == "DEGRADED" and len(p) >= 5 and p[3] == "renamed-locals":
                        for pair in p[4].split(" ambiguous=")[0].split(","):
                            if "->" in pair:
                                o, n = pair.split("->", 1); ren[o] = n
                if ren:
                    def rn(t):
                        return re.sub(r"(?<![A-Za-z0-9_])(%s)(?![A-Za-z0-9_])" % "|".join(re.escape(k) for k in ren), lambda m: ren[m.group(1)], t)
                    subst = [(rn(a), rn(b)) for a, b in subst]
            for a, b in subst:
                txt = txt.replace(a, b)
            hdr = piece.get("header")
            if hdr:
                txt = hdr + "\n" + txt + "\n}\n"
            parts.append("//@file <extracted fns %s>\n" % piece["src"] + txt + "\n")
        else:
            raise Exception("bad piece kind " + kind)
    # R-AUTOCONST: a module-level constant that an extracted function names but no piece of the unit lists (a constant introduced by a
    # change of the code) is extracted from the same source file
    body_text = "".join(parts)
    defined = set(re.findall(r"\b(?:const|static)\s+(?:/\*\s*\d+\*/\s*)?([A-Z][A-Z0-9_]*)\b", body_text))
    for piece in unit["pieces"]:
        if piece["kind"] != "fns":
            continue
        src = os.path.join(REPO, piece["src"])
        try:
            src_consts = set(re.findall(r"^\s*(?:pub(?:\([a-z]+\))?\s+)?(?:const|static)\s+([A-Z][A-Z0-9_]*)\b", open(src).read(), re.M))
        except Exception:
            continue
        for name in sorted(src_consts - defined):
            if re.search(r"(?<!:: )(?<!::)\b%s\b" % re.escape(name), body_text):
                try:
                    txt = run_vx([src, "--items", name], log_path)
                except Inconclusive:
                    continue
                parts.append("//@file <extracted items %s (R-AUTOCONST)>\n" % piece["src"] + txt + "\n")
                with open(log_path, "a") as fh:
                    fh.write("RULE\t%s\tR-AUTOCONST %s\n" % (src, name))
                defined.add(name)
    # R-AUTOCONST for associated constants: `Type :: NAME` named by an extracted function where Type is an extracted item and NAME is a constant of an
    # inherent impl in the item's source file that nothing defines yet (printed by vx as an exec const, R-ASSOCCONST)
    body_text = "".join(parts)
    changed = True
    while changed:
        changed = False
        for piece in unit["pieces"]:
            if piece["kind"] != "items":
                continue
            src = os.path.join(REPO, piece["src"])
            try:
                src_text = open(src).read()
            except Exception:
                continue
            for ty in piece["items"]:
                if "::" in ty:
                    continue
                for name in sorted(set(re.findall(r"\b%s :: ([A-Z][A-Z0-9_]*)\b" % re.escape(ty), body_text))):
                    if not re.search(r"\bconst\s+%s\s*:" % re.escape(name), src_text):
                        continue
                    if re.search(r"\bconst\s+%s\b" % re.escape(name), body_text):
                        continue
                    try:
                        txt = run_vx([src, "--items", "%s::%s" % (ty, name)], log_path)
                    except Inconclusive:
                        continue
                    parts.append("//@file <extracted items %s (R-AUTOCONST)>\n" % piece["src"] + txt + "\n")
                    body_text += txt
                    changed = True
                    with open(log_path, "a") as fh:
                        fh.write("RULE\t%s\tR-AUTOCONST %s::%s\n" % (src, ty, name))
    parts.append("} // verus!\nfn main() {}\n")
    text = "".join(parts)
    with open(out_path, "w") as fh:
        fh.write(text)
    return out_path, log_path


def verus_version():
    try:
        r = subprocess.run(["verus", "--version"], stdout=subprocess.PIPE, stderr=subprocess.STDOUT, text=True)
        return r.stdout.strip().replace("\n", " ")[:200]
    except Exception as e:
        return "unknown"


_VV = None


def run_verus(path, rlimit=60, multiple_errors=40, use_cache=True, seed=None):
    """returns dict(results=..., diagnostics=[...], times=..., wall_s=..., cmd=..., cached=bool)"""
    global _VV
    if _VV is None:
        _VV = verus_version()
    cmd = ["verus", "--no-lifetime", "--output-json", "--time", "--error-format=json", "--multiple-errors", str(multiple_errors),
           "--rlimit", str(rlimit)] + (["--smt-option", "smt.random_seed=%d" % seed, "--smt-option", "sat.random_seed=%d" % seed] if seed else []) + [path]
    text = open(path).read()
    key = hashlib.sha256((_VV + "\0" + " ".join(cmd[1:-1]) + "\0" + text).encode()).hexdigest()
    cdir = os.path.join(BUILD, "cache")
    os.makedirs(cdir, exist_ok=True)
    cpath = os.path.join(cdir, key + ".json")
    if use_cache and os.path.exists(cpath) and not os.environ.get("VERIF_NOCACHE"):
        try:
            d = json.load(open(cpath))
            d["cached"] = True
            return d
        except Exception:
            pass
    t0 = time.time()
    r = subprocess.run(cmd, stdout=subprocess.PIPE, stderr=subprocess.PIPE, text=True, cwd=BUILD)
    wall = time.time() - t0
    diags = []
    other = []
    for line in r.stderr.splitlines():
        line = line.strip()
        if line.startswith("{"):
            try:
                diags.append(json.loads(line))
                continue
            except Exception:
                pass
        if line:
            other.append(line)
    js = None
    try:
        i = r.stdout.index("{")
        js = json.loads(r.stdout[i:])
    except Exception:
        js = None
    d = {"cmd": " ".join(cmd), "returncode": r.returncode, "json": js, "diagnostics": diags, "stderr_other": other[:50],
         "wall_s": wall, "cached": False, "verus": _VV}
    with open(cpath, "w") as fh:
        json.dump(d, fh)
    return d
