#!/bin/bash
# usage: benign_test.sh <tag> <patchdir> <prop> [<prop>...]  - runs the checks against every patch_k.diff of a directory on a scratch clone of /repo
tag=$1; dir=$2; shift; shift
R=/tmp/bt_$tag; B=/tmp/btb_$tag
rm -rf $R $B; git clone -q /repo $R
for pf in $dir/patch_*.diff; do
  git -C $R checkout -q -- . ; git -C $R apply $pf || { echo "$tag $(basename $pf) DOES-NOT-APPLY"; continue; }
  for p in "$@"; do
    out=$(VERIF_REPO=$R VERIF_BUILD=$B VERIF_EVIDENCE_DIR=$B/ev /verif/check $p 2>&1); rc=$?
    echo "$tag $(basename $pf) $p exit=$rc $(echo "$out" | grep -E 'VIOLATION|INCONCLUSIVE|^OK' | head -2 | cut -c1-300 | tr '\n' '|')"
  done
done
rm -rf $R $B
echo "$tag finished"
