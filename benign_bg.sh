#!/bin/bash
# Runs the behaviour-preserving refactorings under /tmp/benign against the checks, from a snapshot of the committed /verif.
SNAP=/tmp/verif_snap3
rm -rf $SNAP; mkdir -p $SNAP
git -C /verif archive HEAD | tar -x -C $SNAP
mkdir -p $SNAP/vx/target/release && cp /verif/vx/target/release/vx $SNAP/vx/target/release/vx
run() { tag=$1; dir=$2; shift; shift
  R=/tmp/bt_$tag; B=/tmp/btb_$tag; rm -rf $R $B; git clone -q /repo $R
  for pf in $dir/patch_*.diff; do
    git -C $R checkout -q -- . ; git -C $R apply $pf || { echo "$tag $(basename $pf) DOES-NOT-APPLY"; continue; }
    for p in "$@"; do
      out=$(cd $SNAP && VERIF_REPO=$R VERIF_BUILD=$B VERIF_EVIDENCE_DIR=$B/ev ./check $p 2>&1); rc=$?
      echo "$tag $(basename $pf) $p exit=$rc $(echo "$out" | grep -E 'VIOLATION|INCONCLUSIVE|^OK' | head -2 | cut -c1-260 | tr '\n' '|')"
    done
  done
  rm -rf $R $B; }
run b1 /tmp/benign/b1 C06 C13 C01
run b2 /tmp/benign/b2 C03 C02 C09
run b3 /tmp/benign/b3 C04 C14 C19 C09
run b4 /tmp/benign/b4 C15 C17 C11
echo finished
