#!/bin/bash
# usage: seed_r2.sh <Cxx>   - confirms the two round-2 changes of a property (ids Cxx_3, Cxx_4) in their scratch worktree, removes the
# worktree, then runs the property's check against each on a scratch clone of /repo and records detection.json
p=$1
for k in 1 2; do
  id=${p}_$((k+2))
  [ -f /tmp/r2/$p/$k/patch.diff ] || { echo "$id: no patch"; continue; }
  /verif/seed_confirm.sh /tmp/wt2_$p /tmp/r2/$p/$k $id $p 2>&1 | tail -1 | cut -c1-300
done
git -C /repo worktree remove --force /tmp/wt2_$p 2>/dev/null
R=/tmp/sr2_$p; B=/tmp/sb2_$p
rm -rf $R $B; git clone -q /repo $R
cd /verif
VERIF_REPO=$R VERIF_BUILD=$B VERIF_EVIDENCE_DIR=$B/ev python3 ./seed_matrix.py ${p}_3 ${p}_4 2>&1 | cut -c1-400
rm -rf $R $B
