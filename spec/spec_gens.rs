// ===================== AggregatedGensIter: party-major walk (U8) =====================
impl<'a, P> AggregatedGensIter<'a, P> {
    // at least m parties with at least n generators each (a postcondition of BulletproofGens::new for n, m within capacity)
    pub open spec fn wf(&self) -> bool {
        &&& self.m <= self.array@.len()
        &&& forall|p: int| 0 <= p < self.m ==> self.n <= (#[trigger] self.array@[p])@.len()
        &&& self.n >= 1
    }
    // party-major walk from (p, g); mirrors the structure of `next`
    pub open spec fn walk(array: &'a Vec<Vec<P>>, n: usize, m: usize, p: int, g: int) -> Seq<&'a P>
        decreases m - p, n - g
    {
        if p >= m || p < 0 || g < 0 { Seq::empty() }
        else if g >= n { Self::walk(array, n, m, p + 1, 0) }
        else { seq![&array@[p]@[g]] + Self::walk(array, n, m, p, g + 1) }
    }
    pub open spec fn rem(&self) -> Seq<&'a P> { Self::walk(self.array, self.n, self.m, self.party_idx as int, self.gen_idx as int) }
}
impl<'a, P> IteratorSpecImpl for AggregatedGensIter<'a, P> {
    open spec fn obeys_prophetic_iter_laws(&self) -> bool { self.wf() }
    #[verifier::prophetic]
    open spec fn remaining(&self) -> Seq<&'a P> { self.rem() }
    #[verifier::prophetic]
    open spec fn will_return_none(&self) -> bool { true }
    open spec fn decrease(&self) -> Option<nat> { Some(self.rem().len()) }
    open spec fn peek(&self, index: int) -> Option<&'a P> { if 0 <= index < self.rem().len() { Some(self.rem()[index]) } else { None } }
}
// length of the party-major walk over a well-shaped grid
pub proof fn lemma_walk_len<'a, P>(array: &'a Vec<Vec<P>>, n: usize, m: usize, p: int, g: int)
    requires 0 <= p <= m, 0 <= g <= n, n >= 1
    ensures AggregatedGensIter::walk(array, n, m, p, g).len() == (if p >= m { 0 } else { (m - p) * n - g })
    decreases m - p, n - g
{
    reveal_with_fuel(AggregatedGensIter::walk, 2);
    if p >= m {
        assert(AggregatedGensIter::walk(array, n, m, p, g) =~= Seq::<&P>::empty());
    } else if g >= n {
        lemma_walk_len(array, n, m, p + 1, 0);
        assert(AggregatedGensIter::walk(array, n, m, p, g) == AggregatedGensIter::walk(array, n, m, p + 1, 0));
        assert((m - p) * n - n == (m - (p + 1)) * n) by(nonlinear_arith);
        if p + 1 >= m { assert((m - p) * n - g == 0) by(nonlinear_arith) requires p + 1 == m, g == n; }
    } else {
        lemma_walk_len(array, n, m, p, g + 1);
        assert(AggregatedGensIter::walk(array, n, m, p, g) == seq![&array@[p]@[g]] + AggregatedGensIter::walk(array, n, m, p, g + 1));
        assert((m - p) * n >= n) by(nonlinear_arith) requires m - p >= 1, n >= 0;
    }
}
