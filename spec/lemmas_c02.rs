// ===================== U17: reference recurrences (T2) equal the published closed forms (T1), pure algebra over the ring axioms =====================
proof fn lemma_mul_zero_r(a: Scalar) ensures s_mul(a, Scalar::ZERO) == Scalar::ZERO
{
    broadcast use group_ring;
    let x = s_mul(a, Scalar::ZERO);
    assert(s_add(Scalar::ZERO, Scalar::ZERO) == Scalar::ZERO);
    assert(s_mul(a, s_add(Scalar::ZERO, Scalar::ZERO)) == s_add(x, x));
    assert(s_add(x, x) == x);
    assert(s_add(s_add(x, x), s_neg(x)) == s_add(x, s_neg(x)));
    assert(s_add(x, s_add(x, s_neg(x))) == Scalar::ZERO);
}
proof fn lemma_mul_neg_r(a: Scalar, b: Scalar) ensures s_mul(a, s_neg(b)) == s_neg(s_mul(a, b))
{
    broadcast use group_ring;
    lemma_mul_zero_r(a);
    let p = s_mul(a, b); let q = s_mul(a, s_neg(b));
    assert(s_add(p, q) == s_mul(a, s_add(b, s_neg(b))));
    assert(s_add(p, q) == Scalar::ZERO);
    assert(s_add(s_neg(p), s_add(p, q)) == s_add(s_neg(p), Scalar::ZERO));
    assert(s_add(s_add(s_neg(p), p), q) == s_neg(p));
    assert(s_add(s_neg(p), p) == Scalar::ZERO);
    assert(s_add(Scalar::ZERO, q) == q);
}
// a^(m+n) == a^m * a^n
pub proof fn lemma_pow_add(a: Scalar, m: nat, n: nat)
    ensures s_pow(a, m + n) == s_mul(s_pow(a, m), s_pow(a, n))
    decreases m
{
    broadcast use group_ring;
    if m == 0 { ax_pow_zero(a); assert(s_mul(Scalar::ONE, s_pow(a, n)) == s_pow(a, n)); }
    else {
        lemma_pow_add(a, (m - 1) as nat, n);
        ax_pow_succ(a, (m - 1) as nat);
        ax_pow_succ(a, (m - 1 + n) as nat);
        assert(m + n == (m - 1 + n) + 1);
    }
}
// the running products of the verifier:  mulpow(a, b, q) == a * b^q
//@ prop(C02) C02.lemma_running_product
pub proof fn lemma_mulpow(a: Scalar, b: Scalar, q: nat)
    ensures mulpow(a, b, q) == s_mul(a, s_pow(b, q))
    decreases q
{
    broadcast use group_ring;
    if q == 0 { ax_pow_zero(b); }
    else { lemma_mulpow(a, b, (q - 1) as nat); ax_pow_succ(b, (q - 1) as nat); }
}
// sum_{j=1..k} a^j
pub open spec fn geo(a: Scalar, k: nat) -> Scalar
    decreases k
{ if k == 0 { Scalar::ZERO } else { s_add(geo(a, (k - 1) as nat), s_pow(a, k)) } }
// sum_{j=k+1..k+n} a^j == a^k * sum_{j=1..n} a^j
proof fn lemma_geo_shift(a: Scalar, k: nat, n: nat)
    ensures geo(a, k + n) == s_add(geo(a, k), s_mul(s_pow(a, k), geo(a, n)))
    decreases n
{
    broadcast use group_ring;
    if n == 0 { lemma_mul_zero_r(s_pow(a, k)); }
    else {
        lemma_geo_shift(a, k, (n - 1) as nat);
        lemma_pow_add(a, k, n);
        assert(k + n == (k + (n - 1)) + 1);
    }
}
// the doubling trick:  t iterations of (s, p) -> (s + s*p, p*p) starting from (a, a) give (sum_{j=1..2^t} a^j, a^(2^t))
//@ prop(C02) C02.lemma_d_sum_doubling_is_sum
pub proof fn lemma_dsum_pair(a: Scalar, t: nat)
    ensures dsum_pair(a, t).0 == geo(a, vstd::arithmetic::power2::pow2(t)), dsum_pair(a, t).1 == s_pow(a, vstd::arithmetic::power2::pow2(t))
    decreases t
{
    broadcast use group_ring;
    vstd::arithmetic::power2::lemma2_to64();
    if t == 0 {
        ax_pow_zero(a); ax_pow_succ(a, 0);
        assert(s_pow(a, 1) == a);
        assert(geo(a, 1) == s_add(geo(a, 0), s_pow(a, 1)));
        assert(s_add(Scalar::ZERO, a) == a);
    } else {
        let p = vstd::arithmetic::power2::pow2((t - 1) as nat);
        lemma_dsum_pair(a, (t - 1) as nat);
        vstd::arithmetic::power2::lemma_pow2_unfold(t);
        assert(vstd::arithmetic::power2::pow2(t) == p + p);
        lemma_geo_shift(a, p, p);
        lemma_pow_add(a, p, p);
        let s = geo(a, p); let q = s_pow(a, p);
        assert(s_mul(s, q) == s_mul(q, s));
    }
}
// (a - 1) * sum_{i=1..n} a^i == a * (a^n - 1)
pub proof fn lemma_geo_closed(a: Scalar, n: nat)
    ensures s_mul(s_sub(a, Scalar::ONE), geo(a, n)) == s_mul(a, s_sub(s_pow(a, n), Scalar::ONE))
    decreases n
{
    broadcast use group_ring;
    if n == 0 {
        lemma_mul_zero_r(s_sub(a, Scalar::ONE));
        lemma_mul_zero_r(a);
        ax_pow_zero(a);
        assert(s_sub(Scalar::ONE, Scalar::ONE) == Scalar::ZERO);
    } else {
        let m = (n - 1) as nat;
        lemma_geo_closed(a, m);
        ax_pow_succ(a, m);
        let d = s_sub(a, Scalar::ONE);
        let pn = s_pow(a, n); let pm = s_pow(a, m);
        assert(pn == s_mul(a, pm));
        assert(s_mul(d, geo(a, n)) == s_add(s_mul(d, geo(a, m)), s_mul(d, pn)));
        lemma_mul_neg_r(pn, Scalar::ONE);
        assert(s_mul(d, pn) == s_add(s_mul(a, pn), s_neg(pn))) by {
            assert(s_mul(d, pn) == s_mul(pn, d));
            assert(s_mul(pn, s_add(a, s_neg(Scalar::ONE))) == s_add(s_mul(pn, a), s_mul(pn, s_neg(Scalar::ONE))));
            assert(s_mul(pn, s_neg(Scalar::ONE)) == s_neg(s_mul(pn, Scalar::ONE)));
        }
        lemma_mul_neg_r(a, Scalar::ONE);
        assert(s_mul(a, s_sub(pm, Scalar::ONE)) == s_add(s_mul(a, pm), s_neg(a))) by {
            assert(s_mul(a, s_neg(Scalar::ONE)) == s_neg(s_mul(a, Scalar::ONE)));
        }
        assert(s_mul(a, s_sub(pn, Scalar::ONE)) == s_add(s_mul(a, pn), s_neg(a))) by {
            assert(s_mul(a, s_neg(Scalar::ONE)) == s_neg(s_mul(a, Scalar::ONE)));
        }
        // lhs = (a*pm - a) + (a*pn - pn) ; a*pm == pn
        assert(s_add(s_add(pn, s_neg(a)), s_add(s_mul(a, pn), s_neg(pn))) == s_add(s_mul(a, pn), s_neg(a))) by {
            assert(s_add(s_add(pn, s_neg(a)), s_add(s_mul(a, pn), s_neg(pn))) == s_add(s_add(pn, s_neg(pn)), s_add(s_mul(a, pn), s_neg(a))));
            assert(s_add(pn, s_neg(pn)) == Scalar::ZERO);
            assert(s_add(Scalar::ZERO, s_add(s_mul(a, pn), s_neg(a))) == s_add(s_mul(a, pn), s_neg(a)));
        }
    }
}
// the verifier's y_sum (closed form with the batch-inverted (y-1)) is sum_{i=1..nm} y^i whenever y != 1
//@ prop(C02) C02.lemma_y_sum_is_geometric_sum
pub proof fn lemma_ysum(pv: PV)
    requires s_sub(pv.y, Scalar::ONE) != Scalar::ZERO
    ensures pv.ysum() == geo(pv.y, pv.nm())
{
    broadcast use group_ring;
    let d = s_sub(pv.y, Scalar::ONE);
    lemma_geo_closed(pv.y, pv.nm());
    ax_inv(d);
    let g = geo(pv.y, pv.nm());
    // ysum = (y*(y^nm - 1)) * inv(d) = (d*g)*inv(d) = g
    assert(s_mul(s_mul(d, g), s_inv(d)) == s_mul(g, s_mul(d, s_inv(d))));
    assert(s_mul(g, Scalar::ONE) == g);
}
