// ===================== prover messages: every scalar and point the prover computes, as specification functions (T2 level) =====================
// bit i of a value, as the scalar the prover pushes
pub open spec fn bit_s(v: u64, i: u32) -> Scalar { s_of_nat(((v >> i) & 1) as nat) }
// value minus promised minimum, per commitment
pub open spec fn offset_vals(st: RangeStatement<P>, w: RangeWitness) -> Seq<u64> {
    Seq::new(w.openings@.len(), |j: int| (w.openings@[j].v - promise_val(st.minimum_value_promises@[j])) as u64)
}
pub struct PP { pub n: nat, pub m: nat, pub y: Scalar, pub z: Scalar, pub ov: Seq<u64> }
impl PP {
    pub open spec fn nm(self) -> nat { self.m * self.n }
    pub open spec fn bit(self, q: int) -> Scalar { bit_at(self.ov, self.n as int, q) }
    pub open spec fn d(self, q: int) -> Scalar { d_t1(sq(self.z), s_of_nat(2), (q / (self.n as int)) as nat, (q % (self.n as int)) as nat) }
    // a_L - z
    pub open spec fn a0(self, q: int) -> Scalar { s_sub(self.bit(q), self.z) }
    // a_R + d_q * y^(nm - q) + z        (a_R = a_L - 1)
    pub open spec fn b0(self, q: int) -> Scalar { s_add(s_sub(self.bit(q), Scalar::ONE), s_add(s_mul(self.d(q), s_pow(self.y, (self.nm() - q) as nat)), self.z)) }
}
// scalars of the fixed-base part of A: a_L and a_R (bit and bit - 1) interleaved, zero-padded to the table length
pub open spec fn bit_at(ov: Seq<u64>, n: int, q: int) -> Scalar { bit_s(ov[q / n], (q % n) as u32) }
pub open spec fn a_static_scalars(ov: Seq<u64>, n: int, nm: int, table_len: nat) -> Seq<Scalar> {
    Seq::new(table_len, |k: int| if k < 2 * nm { if k % 2 == 0 { bit_at(ov, n, k / 2) } else { s_sub(bit_at(ov, n, k / 2), Scalar::ONE) } } else { Scalar::ZERO })
}
pub open spec fn a_spec(ov: Seq<u64>, n: int, nm: int, table: Seq<P>, alpha0: Seq<Scalar>, gb: Seq<P>) -> P {
    p_add(msm(a_static_scalars(ov, n, nm, table.len()), table), msm(alpha0, gb))
}
// state of the inner-product argument between folding rounds
pub struct PSt { pub a: Seq<Scalar>, pub b: Seq<Scalar>, pub g: Seq<P>, pub h: Seq<P> }
pub open spec fn fold_st(s: PSt, y: Scalar, e: Scalar) -> PSt {
    let n = s.a.len() / 2;
    let yn = s_pow(y, n);
    let yni = s_inv(yn);
    let ei = s_inv(e);
    PSt {
        a: Seq::new(n, |i: int| s_add(s_mul(s.a[i], e), s_mul(s_mul(s.a[n + i], yn), ei))),
        b: Seq::new(n, |i: int| s_add(s_mul(s.b[i], ei), s_mul(s.b[n + i], e))),
        g: Seq::new(n, |i: int| msm(seq![ei, s_mul(e, yni)], seq![s.g[i], s.g[n + i]])),
        h: Seq::new(n, |i: int| msm(seq![e, ei], seq![s.h[i], s.h[n + i]])),
    }
}
pub open spec fn pst(s0: PSt, y: Scalar, es: Seq<Scalar>, t: nat) -> PSt
    decreases t
{ if t == 0 { s0 } else { fold_st(pst(s0, y, es, (t - 1) as nat), y, es[t - 1]) } }
pub proof fn lemma_pst_prefix(s0: PSt, y: Scalar, es: Seq<Scalar>, t: nat, n: nat)
    requires t <= n <= es.len()
    ensures pst(s0, y, es, t) == pst(s0, y, es.take(n as int), t)
    decreases t
{ if t > 0 { lemma_pst_prefix(s0, y, es, (t - 1) as nat, n); } }
// weighted inner product  sum_{i<cnt} a[i] * y^(off+i) * b[i]
pub open spec fn wip(a: Seq<Scalar>, b: Seq<Scalar>, y: Scalar, off: nat, cnt: nat) -> Scalar
    decreases cnt
{ if cnt == 0 { Scalar::ZERO } else { s_add(wip(a, b, y, off, (cnt - 1) as nat), s_mul(s_mul(a[cnt - 1], s_pow(y, (off + cnt - 1) as nat)), b[cnt - 1])) } }
pub open spec fn l_spec(s: PSt, y: Scalar, dl: Seq<Scalar>, hb: P, gb: Seq<P>) -> P {
    let n = s.a.len() / 2;
    let yni = s_inv(s_pow(y, n));
    msm(seq![wip(s.a.take(n as int), s.b.skip(n as int), y, 1, n)] + dl + Seq::new(n, |i: int| s_mul(s.a[i], yni)) + s.b.skip(n as int),
        seq![hb] + gb + s.g.skip(n as int) + s.h.take(n as int))
}
pub open spec fn r_spec(s: PSt, y: Scalar, dr: Seq<Scalar>, hb: P, gb: Seq<P>) -> P {
    let n = s.a.len() / 2;
    let yn = s_pow(y, n);
    msm(seq![wip(s.a.skip(n as int), s.b.take(n as int), y, n + 1, n)] + dr + Seq::new(n, |i: int| s_mul(s.a[n + i], yn)) + s.b.take(n as int),
        seq![hb] + gb + s.g.take(n as int) + s.h.skip(n as int))
}
// sum_k G_k * c_k added to a starting point, in the order the prover adds them
pub open spec fn add_terms(p0: P, gb: Seq<P>, c: Seq<Scalar>, cnt: nat) -> P
    decreases cnt
{ if cnt == 0 { p0 } else { p_add(add_terms(p0, gb, c, (cnt - 1) as nat), p_mul_r(gb[cnt - 1], c[cnt - 1])) } }
pub open spec fn a1_spec(s: PSt, y: Scalar, r: Scalar, sv: Scalar, d: Seq<Scalar>, hb: P, gb: Seq<P>) -> P {
    let y1 = s_pow(y, 1);
    add_terms(p_add(p_add(p_mul_r(s.g[0], r), p_mul_r(s.h[0], sv)), p_mul_r(hb, s_add(s_mul(s_mul(r, y1), s.b[0]), s_mul(s_mul(sv, y1), s.a[0])))), gb, d, d.len())
}
pub open spec fn b_spec(y: Scalar, r: Scalar, sv: Scalar, eta: Seq<Scalar>, hb: P, gb: Seq<P>) -> P {
    add_terms(p_mul_r(hb, s_mul(s_mul(r, s_pow(y, 1)), sv)), gb, eta, eta.len())
}
// the nonces of one proof
pub struct PNonces { pub alpha0: Seq<Scalar>, pub dl: Seq<Seq<Scalar>>, pub dr: Seq<Seq<Scalar>>, pub r: Scalar, pub s: Scalar, pub d: Seq<Scalar>, pub eta: Seq<Scalar> }
pub open spec fn prover_pp(st: RangeStatement<P>, w: RangeWitness, y: Scalar, z: Scalar) -> PP {
    PP { n: st.generators.bp_gens.gens_capacity as nat, m: st.commitments@.len(), y, z, ov: offset_vals(st, w) }
}
pub open spec fn prover_s0(st: RangeStatement<P>, pp: PP) -> PSt {
    PSt {
        a: Seq::new(pp.nm(), |q: int| pp.a0(q)),
        b: Seq::new(pp.nm(), |q: int| pp.b0(q)),
        // the first nm generators of the party-major walk over the G (H) grid
        g: Seq::new(pp.nm(), |q: int| *AggregatedGensIter::walk(&st.generators.bp_gens.g_vec, st.generators.bp_gens.gens_capacity, st.generators.bp_gens.party_capacity, 0, 0)[q]),
        h: Seq::new(pp.nm(), |q: int| *AggregatedGensIter::walk(&st.generators.bp_gens.h_vec, st.generators.bp_gens.gens_capacity, st.generators.bp_gens.party_capacity, 0, 0)[q]),
    }
}
// C01 / C13 (message structure): the proof is exactly the honest prover's message sequence for some nonces -
// A commits to the bit decomposition of value - promise with blinding alpha0; round t sends L_t, R_t of the t-th folded state with blindings dl_t, dr_t;
// A1, B carry r, s, d, eta; r1, s1 open the folded vectors
pub open spec fn prover_msgs_ok(st: RangeStatement<P>, w: RangeWitness, pr: RangeProof<P>, ch: (Scalar, Scalar, Seq<Scalar>, Scalar), nn: PNonces) -> bool {
    let (y, z, es, e) = ch;
    let pp = prover_pp(st, w, y, z);
    let s0 = prover_s0(st, pp);
    let hb = st.generators.pc_gens.h_base;
    let gb = st.generators.pc_gens.g_base_vec@;
    let rounds = pr.li@.len();
    let sf = pst(s0, y, es, rounds);
    let ext = st.generators.pc_gens.extension_degree as nat;
    &&& es.len() == rounds && pr.ri@.len() == rounds && nn.dl.len() == rounds && nn.dr.len() == rounds
    &&& nn.alpha0.len() == ext && nn.d.len() == ext && nn.eta.len() == ext
    &&& pr.a == p_compress(a_spec(pp.ov, pp.n as int, pp.nm() as int, precomp_table(*st.generators.bp_gens.precomp), nn.alpha0, gb))
    &&& forall|t: int| 0 <= t < rounds ==> #[trigger] pr.li@[t] == p_compress(l_spec(pst(s0, y, es, t as nat), y, nn.dl[t], hb, gb))
    &&& forall|t: int| 0 <= t < rounds ==> #[trigger] pr.ri@[t] == p_compress(r_spec(pst(s0, y, es, t as nat), y, nn.dr[t], hb, gb))
    &&& pr.a1 == p_compress(a1_spec(sf, y, nn.r, nn.s, nn.d, hb, gb))
    &&& pr.b == p_compress(b_spec(y, nn.r, nn.s, nn.eta, hb, gb))
    &&& pr.r1 == s_add(nn.r, s_mul(sf.a[0], e))
    &&& pr.s1 == s_add(nn.s, s_mul(sf.b[0], e))
}
pub proof fn lemma_divmod_flat(j: int, i: int, n: int)
    requires 0 <= j, 0 <= i < n
    ensures (j * n + i) / n == j, (j * n + i) % n == i
{
    vstd::arithmetic::div_mod::lemma_fundamental_div_mod_converse(j * n + i, n, j, i);
    assert(n * j == j * n) by(nonlinear_arith);
}
// the bit vectors after the decomposition loop
#[verifier::opaque]
pub open spec fn bits_ok(al: Seq<Scalar>, ar: Seq<Scalar>, ov: Seq<u64>, n: int) -> bool {
    &&& al.len() == ar.len()
    &&& forall|q: int| 0 <= q < al.len() ==> #[trigger] al[q] == bit_at(ov, n, q)
    &&& forall|q: int| 0 <= q < ar.len() ==> #[trigger] ar[q] == s_sub(bit_at(ov, n, q), Scalar::ONE)
}
pub proof fn lemma_bits_push(al: Seq<Scalar>, ar: Seq<Scalar>, ov: Seq<u64>, n: int, x: Scalar, y: Scalar)
    requires bits_ok(al, ar, ov, n), x == bit_s(ov[al.len() as int / n], (al.len() as int % n) as u32), y == s_sub(x, Scalar::ONE)
    ensures bits_ok(al.push(x), ar.push(y), ov, n)
{ reveal(bits_ok); }
pub proof fn lemma_bits_empty(ov: Seq<u64>, n: int) ensures bits_ok(Seq::empty(), Seq::empty(), ov, n) { reveal(bits_ok); }
// the d vector and the two vectors entering the inner-product argument
#[verifier::opaque]
pub open spec fn dvec_ok(d: Seq<Scalar>, pp: PP) -> bool {
    &&& d.len() == pp.nm()
    &&& forall|q: int| 0 <= q < d.len() ==> #[trigger] d[q] == pp.d(q)
}
#[verifier::opaque]
pub open spec fn st0_ok(a: Seq<Scalar>, b: Seq<Scalar>, pp: PP) -> bool {
    &&& a.len() == pp.nm() && b.len() == pp.nm()
    &&& forall|q: int| 0 <= q < a.len() ==> #[trigger] a[q] == pp.a0(q)
    &&& forall|q: int| 0 <= q < b.len() ==> #[trigger] b[q] == pp.b0(q)
}
// a left fold with step  acc + x*y^(off+k)*z  computes the weighted inner product
pub proof fn lemma_wip_chain(accs: Seq<Scalar>, xs: Seq<Scalar>, zs: Seq<Scalar>, y: Scalar, off: nat, n: nat)
    requires accs.len() == n + 1, accs[0] == Scalar::ZERO,
        forall|k: int| 1 <= k <= n ==> #[trigger] accs[k] == s_add(accs[k - 1], s_mul(s_mul(xs[k - 1], s_pow(y, (off + k - 1) as nat)), zs[k - 1]))
    ensures accs[n as int] == wip(xs, zs, y, off, n)
    decreases n
{
    if n > 0 {
        lemma_wip_chain(accs.take(n as int), xs, zs, y, off, (n - 1) as nat);
        assert(accs.take(n as int)[n - 1] == accs[n - 1]);
    }
}
// Iterator::fold with the prover's step closure over (x_k, y^(off+k), z_k) triples is the weighted inner product
pub proof fn lemma_fold_wip<'a, F: FnMut(Scalar, (&'a Scalar, &'a Scalar, &'a Scalar)) -> Scalar>(items: Seq<(&'a Scalar, &'a Scalar, &'a Scalar)>, f: F, r: Scalar,
        xs: Seq<Scalar>, zs: Seq<Scalar>, y: Scalar, off: nat, n: nat)
    requires
        exists|accs: Seq<Scalar>| fold_chain(accs, items, Scalar::ZERO, f, r),
        items.len() == n,
        forall|acc: Scalar, x: (&'a Scalar, &'a Scalar, &'a Scalar), out: Scalar| #[trigger] f.ensures((acc, x), out) ==> out == s_add(acc, s_mul(s_mul(*x.0, *x.1), *x.2)),
        forall|k: int| 0 <= k < n ==> *(#[trigger] items[k]).0 == xs[k] && *items[k].1 == s_pow(y, (off + k) as nat) && *items[k].2 == zs[k],
    ensures r == wip(xs, zs, y, off, n)
{
    reveal(fold_chain);
    let accs = choose|accs: Seq<Scalar>| fold_chain(accs, items, Scalar::ZERO, f, r);
    assert forall|k: int| 1 <= k <= n implies #[trigger] accs[k] == s_add(accs[k - 1], s_mul(s_mul(xs[k - 1], s_pow(y, (off + k - 1) as nat)), zs[k - 1])) by {
        assert(f.ensures((accs[k - 1], items[k - 1]), accs[k]));
    }
    lemma_wip_chain(accs, xs, zs, y, off, n);
}
// the round messages sent so far are the specified functions of the successive folded states
#[verifier::opaque]
pub open spec fn rounds_ok(s0: PSt, y: Scalar, es: Seq<Scalar>, dls: Seq<Seq<Scalar>>, drs: Seq<Seq<Scalar>>, li: Seq<P>, ri: Seq<P>, hb: P, gb: Seq<P>, rounds: nat) -> bool {
    &&& li.len() == rounds && ri.len() == rounds && es.len() == rounds && dls.len() == rounds && drs.len() == rounds
    &&& forall|t: int| 0 <= t < rounds ==> #[trigger] li[t] == l_spec(pst(s0, y, es, t as nat), y, dls[t], hb, gb)
    &&& forall|t: int| 0 <= t < rounds ==> #[trigger] ri[t] == r_spec(pst(s0, y, es, t as nat), y, drs[t], hb, gb)
}
pub proof fn lemma_rounds_ok_empty(s0: PSt, y: Scalar, hb: P, gb: Seq<P>)
    ensures rounds_ok(s0, y, Seq::empty(), Seq::empty(), Seq::empty(), Seq::empty(), Seq::empty(), hb, gb, 0)
{ reveal(rounds_ok); }
pub proof fn lemma_rounds_ok_push(s0: PSt, y: Scalar, es: Seq<Scalar>, dls: Seq<Seq<Scalar>>, drs: Seq<Seq<Scalar>>, li: Seq<P>, ri: Seq<P>, hb: P, gb: Seq<P>, rounds: nat,
        e: Scalar, dl: Seq<Scalar>, dr: Seq<Scalar>, l: P, r: P)
    requires rounds_ok(s0, y, es, dls, drs, li, ri, hb, gb, rounds),
        l == l_spec(pst(s0, y, es, rounds), y, dl, hb, gb), r == r_spec(pst(s0, y, es, rounds), y, dr, hb, gb)
    ensures rounds_ok(s0, y, es.push(e), dls.push(dl), drs.push(dr), li.push(l), ri.push(r), hb, gb, rounds + 1)
{
    reveal(rounds_ok);
    let es2 = es.push(e); let dls2 = dls.push(dl); let drs2 = drs.push(dr); let li2 = li.push(l); let ri2 = ri.push(r);
    assert(es2.take(rounds as int) =~= es);
    assert forall|t: int| 0 <= t < rounds + 1 implies #[trigger] li2[t] == l_spec(pst(s0, y, es2, t as nat), y, dls2[t], hb, gb) by {
        lemma_pst_prefix(s0, y, es2, t as nat, rounds);
        if t < rounds { assert(li2[t] == li[t] && dls2[t] == dls[t]); }
    }
    assert forall|t: int| 0 <= t < rounds + 1 implies #[trigger] ri2[t] == r_spec(pst(s0, y, es2, t as nat), y, drs2[t], hb, gb) by {
        lemma_pst_prefix(s0, y, es2, t as nat, rounds);
        if t < rounds { assert(ri2[t] == ri[t] && drs2[t] == drs[t]); }
    }
}
// one more round: the state after t+1 rounds is the fold of the state after t rounds with the new challenge
pub proof fn lemma_pst_push(s0: PSt, y: Scalar, es: Seq<Scalar>, e: Scalar, t: nat)
    requires es.len() == t
    ensures pst(s0, y, es.push(e), t + 1) == fold_st(pst(s0, y, es, t), y, e)
{
    let es2 = es.push(e);
    assert(es2.take(t as int) =~= es);
    lemma_pst_prefix(s0, y, es2, t, t);
}
pub open spec fn prover_msgs_exist(st: RangeStatement<P>, w: RangeWitness, pr: RangeProof<P>, ch: (Scalar, Scalar, Seq<Scalar>, Scalar)) -> bool {
    exists|nn: PNonces| #[trigger] prover_msgs_ok(st, w, pr, ch, nn)
}
