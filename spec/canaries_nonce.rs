proof fn vx_canary_axioms_n() ensures false { broadcast use group_ring, ax_scalar_bytes_len, ax_le32_len, ax_label_lens; }
