// ===================== Clone of vectors of points: a clone of a Vec<P> / Vec<Vec<P>> has the same view (P::clone returns an equal point) =====================
pub proof fn lemma_cloned_vec_p(a: Vec<P>, b: Vec<P>)
    requires cloned::<Vec<P>>(a, b)
    ensures a@ == b@
{
    if a != b {
        assert(call_ensures(<Vec<P> as Clone>::clone, (&a,), b));
        assert(a@.len() == b@.len());
        assert forall|j: int| 0 <= j < a@.len() implies a@[j] == b@[j] by {
            assert(cloned::<P>(a[j], b[j]));
        }
        assert(a@ =~= b@);
    }
}
// two generator tables with the same content (Vec values are not extensional; their views are)
pub open spec fn same_table(a: Seq<Vec<P>>, b: Seq<Vec<P>>) -> bool {
    a.len() == b.len() && forall|i: int| 0 <= i < a.len() ==> (#[trigger] a[i])@ == b[i]@
}
pub broadcast proof fn lemma_cloned_vecvec_p(a: Vec<Vec<P>>, b: Vec<Vec<P>>)
    requires #[trigger] vstd::std_specs::vec::vec_clone_trigger(a, b), a.len() == b.len(), forall|i: int| #![all_triggers] 0 <= i < a.len() ==> cloned::<Vec<P>>(a[i], b[i])
    ensures same_table(a@, b@)
{
    assert forall|i: int| 0 <= i < a@.len() implies (#[trigger] a@[i])@ == b@[i]@ by {
        assert(cloned::<Vec<P>>(a[i], b[i]));
        lemma_cloned_vec_p(a[i], b[i]);
    }
}
