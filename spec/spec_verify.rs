// ===================== verifier-side specification functions =====================
pub open spec fn sq(a: Scalar) -> Scalar { s_mul(a, a) }
pub open spec fn csq_of(es: Seq<Scalar>) -> Seq<Scalar> { Seq::new(es.len(), |j: int| sq(es[j])) }
pub open spec fn csqinv_of(es: Seq<Scalar>) -> Seq<Scalar> { Seq::new(es.len(), |j: int| sq(s_inv(es[j]))) }
// all extension-degree components of the recovered mask, in order (C09)
pub open spec fn mask_vec(seed: Scalar, d1: Seq<Scalar>, y: Scalar, z: Scalar, es: Seq<Scalar>, e: Scalar, nm: nat, ext: usize) -> Seq<Scalar> {
    Seq::new(ext as nat, |k: int| mask_k(seed, d1[k], e, sq(e), s_mul(sq(z), s_mul(s_pow(y, nm), y)), csq_of(es), csqinv_of(es), k as usize, es.len()))
}
pub open spec fn mask_spec(action: VerifyAction, st: RangeStatement<P>, pr: RangeProof<P>, ch: (Scalar, Scalar, Seq<Scalar>, Scalar), n: usize, ext: usize) -> Option<Seq<Scalar>> {
    if action == VerifyAction::VerifyOnly || st.seed_nonce is None { None }
    else { Some(mask_vec(st.seed_nonce->Some_0, pr.d1@, ch.0, ch.1, ch.2, ch.3, (st.commitments@.len() * n) as nat, ext)) }
}
pub open spec fn mask_view(m: Option<ExtendedMask>) -> Option<Seq<Scalar>> { match m { Some(x) => Some(x.blindings@), None => None } }
// the challenges of batch member i, as the oracle applied to its own transcript
pub open spec fn member_challenges(ctx: Seq<TEvent>, statements: Seq<RangeStatement<P>>, proofs: Seq<RangeProof<P>>, i: int) -> (Scalar, Scalar, Seq<Scalar>, Scalar) {
    let g = statements[0].generators;
    spec_challenges(ctx, g.pc_gens.h_base_compressed, g.pc_gens.g_base_compressed_vec@, g.bp_gens.gens_capacity, g.pc_gens.extension_degree as usize, statements[i], proofs[i])
}
