// ===================== verifier-side specification functions =====================
pub open spec fn sq(a: Scalar) -> Scalar { s_mul(a, a) }
pub open spec fn csq_of(es: Seq<Scalar>) -> Seq<Scalar> { Seq::new(es.len(), |j: int| sq(es[j])) }
pub open spec fn csqinv_of(es: Seq<Scalar>) -> Seq<Scalar> { Seq::new(es.len(), |j: int| sq(s_inv(es[j]))) }
// all extension-degree components of the recovered mask, in order (C09)
pub open spec fn mask_vec(seed: Scalar, d1: Seq<Scalar>, y: Scalar, z: Scalar, es: Seq<Scalar>, e: Scalar, nm: nat, ext: usize) -> Seq<Scalar> {
    Seq::new(ext as nat, |k: int| mask_k(seed, d1[k], e, sq(e), s_mul(sq(z), s_mul(s_pow(y, nm), y)), csq_of(es), csqinv_of(es), k as usize, es.len()))
}
pub open spec fn mask_spec(action: VerifyAction, st: RangeStatement<P>, pr: RangeProof<P>, ch: (Scalar, Scalar, Seq<Scalar>, Scalar), n: usize, ext: usize) -> Option<Seq<Scalar>> {
    if action == VerifyAction::VerifyOnly || st.seed_nonce is None { None }
    else { Some(mask_vec(st.seed_nonce->Some_0, pr.d1@, ch.0, ch.1, ch.2, ch.3, (st.commitments@.len() * n) as nat, ext)) }
}
pub open spec fn mask_view(m: Option<ExtendedMask>) -> Option<Seq<Scalar>> { match m { Some(x) => Some(x.blindings@), None => None } }
// the challenges of batch member i, as the oracle applied to its own transcript
pub open spec fn member_challenges(ctx: Seq<TEvent>, statements: Seq<RangeStatement<P>>, proofs: Seq<RangeProof<P>>, i: int) -> (Scalar, Scalar, Seq<Scalar>, Scalar) {
    let g = statements[0].generators;
    spec_challenges(ctx, g.pc_gens.h_base_compressed, g.pc_gens.g_base_compressed_vec@, g.bp_gens.gens_capacity, g.pc_gens.extension_degree as usize, statements[i], proofs[i])
}
// ---- batch weights (C08): each proof's final transcript (responses absorbed) keys an RNG whose first u64 is absorbed into the
// weight transcript; after ALL proofs were absorbed one RNG is built from it and weight p is its p-th nonzero draw.
pub open spec fn member_full_log(ctx: Seq<TEvent>, statements: Seq<RangeStatement<P>>, proofs: Seq<RangeProof<P>>, i: int) -> Seq<TEvent> {
    let g = statements[0].generators;
    full_log(ctx, g.pc_gens.h_base_compressed, g.pc_gens.g_base_compressed_vec@, g.bp_gens.gens_capacity, g.pc_gens.extension_degree as usize, statements[i], proofs[i])
}
pub open spec fn weight_log(ctxs: Seq<Seq<TEvent>>, statements: Seq<RangeStatement<P>>, proofs: Seq<RangeProof<P>>, k: nat) -> Seq<TEvent>
    decreases k
{
    if k == 0 { transcript_init_log(b"Bulletproofs+ verifier weights"@) } else {
        weight_log(ctxs, statements, proofs, (k - 1) as nat).push(TEvent::Append(b"proof"@,
            le64(rng_u64(trng_state(member_full_log(ctxs[k - 1], statements, proofs, k - 1), None, null_rng_state())))))
    }
}
// ws are successive first-nonzero draws of one RNG stream that starts in st0 and ends in st_end
#[verifier::opaque]
pub open spec fn weights_chain(ws: Seq<Scalar>, st0: RngSt, st_end: RngSt) -> bool {
    exists|sts: Seq<RngSt>| #![trigger sts.len()] {
        &&& sts.len() == ws.len() + 1
        &&& sts[0] == st0
        &&& sts[ws.len() as int] == st_end
        &&& forall|p: int| 0 <= p < ws.len() ==> rnz_drawn::<TranscriptRng>(#[trigger] sts[p], ws[p], sts[p + 1])
    }
}
pub open spec fn ctx_logs(trs: Seq<Transcript>) -> Seq<Seq<TEvent>> { Seq::new(trs.len(), |p: int| trs[p].log()) }
pub proof fn lemma_weights_chain_empty(st0: RngSt)
    ensures weights_chain(Seq::<Scalar>::empty(), st0, st0)
{
    reveal(weights_chain);
    let sts = seq![st0];
    assert(sts.len() == 1 && sts[0] == st0);
}
pub proof fn lemma_weights_chain_push(ws: Seq<Scalar>, st0: RngSt, mid: RngSt, w: Scalar, st_end: RngSt)
    requires weights_chain(ws, st0, mid), rnz_drawn::<TranscriptRng>(mid, w, st_end)
    ensures weights_chain(ws.push(w), st0, st_end)
{
    reveal(weights_chain);
    let sts = choose|sts: Seq<RngSt>| #![trigger sts.len()] sts.len() == ws.len() + 1 && sts[0] == st0 && sts[ws.len() as int] == mid
        && forall|p: int| 0 <= p < ws.len() ==> rnz_drawn::<TranscriptRng>(#[trigger] sts[p], ws[p], sts[p + 1]);
    let sts2 = sts.push(st_end);
    let wsp = ws.push(w);
    assert(sts2.len() == wsp.len() + 1 && sts2[0] == st0 && sts2[wsp.len() as int] == st_end);
    assert forall|p: int| 0 <= p < wsp.len() implies rnz_drawn::<TranscriptRng>(#[trigger] sts2[p], wsp[p], sts2[p + 1]) by {
        if p < ws.len() { assert(sts2[p] == sts[p] && sts2[p + 1] == sts[p + 1] && wsp[p] == ws[p]); }
        else { assert(sts2[p] == mid && wsp[p] == w && sts2[p + 1] == st_end); }
    }
}
// C05: shape checks and decodability that every accepted proof passed
pub open spec fn proof_shape_ok(pr: RangeProof<P>, st: RangeStatement<P>, n: usize) -> bool {
    pr.li@.len() == pr.ri@.len() && vstd::arithmetic::power2::pow2(pr.li@.len()) == st.commitments@.len() * n
}
pub open spec fn proof_points_decode(pr: RangeProof<P>) -> bool {
    &&& cp_decompress(pr.a) is Some && cp_decompress(pr.a1) is Some && cp_decompress(pr.b) is Some
    &&& forall|q: int| 0 <= q < pr.li@.len() ==> cp_decompress(#[trigger] pr.li@[q]) is Some
    &&& forall|q: int| 0 <= q < pr.ri@.len() ==> cp_decompress(#[trigger] pr.ri@[q]) is Some
}
pub open spec fn weights_ok(ws: Seq<Scalar>, st0: RngSt) -> bool { exists|st_end: RngSt| weights_chain(ws, st0, st_end) }
pub open spec fn weight_rng_state0(trs: Seq<Transcript>, statements: Seq<RangeStatement<P>>, proofs: Seq<RangeProof<P>>) -> RngSt {
    trng_state(weight_log(ctx_logs(trs), statements, proofs, proofs.len()), None, null_rng_state())
}
// ---- transcript-RNG provenance helpers (C13 / C14)
pub proof fn lemma_trng_steps(st: RngSt, n: nat)
    ensures rng_steps::<TranscriptRng>(st, n).key == st.key, rng_steps::<TranscriptRng>(st, n).ctr == st.ctr + n
    decreases n
{
    if n > 0 { lemma_trng_steps(st, (n - 1) as nat); }
}
// a first-nonzero draw from a transcript RNG keeps the key and advances the counter: successive draws are different draws
pub proof fn lemma_rnz_key_preserved(st: RngSt, v: Scalar, st2: RngSt)
    requires rnz_drawn::<TranscriptRng>(st, v, st2)
    ensures st2.key == st.key, st2.ctr > st.ctr, exists|c: nat| st.ctr <= c < st2.ctr && v == rng_scalar(RngSt { key: st.key, ctr: c })
{
    reveal(rnz_drawn);
    let n = choose|n: nat| #![trigger rng_steps::<TranscriptRng>(st, n)] v == rng_scalar(rng_steps::<TranscriptRng>(st, n)) && st2 == rng_steps::<TranscriptRng>(st, n + 1);
    lemma_trng_steps(st, n);
    lemma_trng_steps(st, n + 1);
    let c = st.ctr + n;
    assert(rng_steps::<TranscriptRng>(st, n) == RngSt { key: st.key, ctr: c });
}
pub open spec fn rng_keyed(st: RngSt, wb: Option<Seq<u8>>) -> bool { st.key.wit == wit_key(wb) }
pub proof fn lemma_chain_keyed(ws: Seq<Scalar>, st0: RngSt, st_end: RngSt)
    requires weights_chain(ws, st0, st_end)
    ensures st_end.key == st0.key, st_end.ctr >= st0.ctr + ws.len()
{
    reveal(weights_chain);
    let sts = choose|sts: Seq<RngSt>| #![trigger sts.len()] sts.len() == ws.len() + 1 && sts[0] == st0 && sts[ws.len() as int] == st_end
        && forall|p: int| 0 <= p < ws.len() ==> rnz_drawn::<TranscriptRng>(#[trigger] sts[p], ws[p], sts[p + 1]);
    lemma_chain_keyed_aux(ws, sts, ws.len());
}
proof fn lemma_chain_keyed_aux(ws: Seq<Scalar>, sts: Seq<RngSt>, k: nat)
    requires sts.len() == ws.len() + 1, k <= ws.len(), forall|p: int| 0 <= p < ws.len() ==> rnz_drawn::<TranscriptRng>(#[trigger] sts[p], ws[p], sts[p + 1])
    ensures sts[k as int].key == sts[0].key, sts[k as int].ctr >= sts[0].ctr + k
    decreases k
{
    if k > 0 { lemma_chain_keyed_aux(ws, sts, (k - 1) as nat); lemma_rnz_key_preserved(sts[k - 1], ws[k - 1], sts[k as int]); }
}
// C10 / C03 / C01 (verifier side): the only reasons verify() may refuse a batch. Nothing here mentions the recovery seeds or the mode:
// apart from transcript rejections and the final equation (both ProofError::VerificationFailed) a refusal is a function of the shapes alone.
pub open spec fn member_well_shaped(pr: RangeProof<P>, st: RangeStatement<P>, n: usize) -> bool {
    proof_shape_ok(pr, st, n) && proof_points_decode(pr)
}
pub open spec fn all_well_shaped(st: Seq<RangeStatement<P>>, pr: Seq<RangeProof<P>>) -> bool {
    forall|p: int| 0 <= p < pr.len() ==> member_well_shaped(#[trigger] pr[p], st[p], st[0].generators.bp_gens.gens_capacity)
}
// 2^k == v with v below 2^39 bounds k (used to show that the size-overflow exits are unreachable for well-shaped members)
pub proof fn lemma_rounds_bound(k: nat, v: int)
    requires vstd::arithmetic::power2::pow2(k) == v, v <= 0x80_0000_0000
    ensures k <= 39
{
    if k >= 40 {
        vstd::arithmetic::power2::lemma2_to64_rest();
        vstd::arithmetic::power2::lemma_pow2_strictly_increases(39, k);
    }
}
// consistency and well-shapedness of a batch are inherited by every contiguous part of it (the chunks verify_batch hands to verify)
pub proof fn lemma_consistent_sub(st: Seq<RangeStatement<P>>, pr: Seq<RangeProof<P>>, lo: int, hi: int)
    requires batch_consistent(st, pr), 0 <= lo < hi <= st.len()
    ensures batch_consistent(st.subrange(lo, hi), pr.subrange(lo, hi))
{
    let s2 = st.subrange(lo, hi); let p2 = pr.subrange(lo, hi);
    assert(s2[0] == st[lo] && p2[0] == pr[lo]);
    assert(pr[lo].d1@.len() == st[0].generators.pc_gens.extension_degree as usize);
    assert forall|i: int| 0 <= i < s2.len() implies {
            &&& (#[trigger] p2[i]).d1@.len() == s2[0].generators.pc_gens.extension_degree as usize
            &&& s2[i].generators.pc_gens.extension_degree == s2[0].generators.pc_gens.extension_degree
            &&& s2[i].generators.bp_gens.gens_capacity == s2[0].generators.bp_gens.gens_capacity
            &&& s2[i].generators.pc_gens.g_base_vec@ == s2[0].generators.pc_gens.g_base_vec@
            &&& s2[i].generators.pc_gens.h_base == s2[0].generators.pc_gens.h_base
        } by { assert(p2[i] == pr[lo + i] && s2[i] == st[lo + i]); }
    assert forall|i: int, q: int| 0 <= i < s2.len() && 0 <= q < s2[i].minimum_value_promises@.len() implies
            #[trigger] promise_ok(s2[i].minimum_value_promises@[q], s2[0].generators.bp_gens.gens_capacity) by {
        assert(s2[i] == st[lo + i]);
        assert(promise_ok(st[lo + i].minimum_value_promises@[q], st[0].generators.bp_gens.gens_capacity));
    }
    assert forall|i: int, j: int| 0 <= i < s2.len() && 0 <= j < s2.len() implies gens_prefix_agree((#[trigger] s2[i]).generators, (#[trigger] s2[j]).generators) by {
        assert(s2[i] == st[lo + i] && s2[j] == st[lo + j]);
    }
}
pub proof fn lemma_shaped_sub(st: Seq<RangeStatement<P>>, pr: Seq<RangeProof<P>>, lo: int, hi: int)
    requires batch_consistent(st, pr), all_well_shaped(st, pr), 0 <= lo < hi <= st.len()
    ensures all_well_shaped(st.subrange(lo, hi), pr.subrange(lo, hi))
{
    let s2 = st.subrange(lo, hi); let p2 = pr.subrange(lo, hi);
    assert(s2[0] == st[lo] && p2[0] == pr[lo]);
    assert forall|p: int| 0 <= p < p2.len() implies member_well_shaped(#[trigger] p2[p], s2[p], s2[0].generators.bp_gens.gens_capacity) by {
        assert(p2[p] == pr[lo + p] && s2[p] == st[lo + p]);
        assert(member_well_shaped(pr[lo + p], st[lo + p], st[0].generators.bp_gens.gens_capacity));
    }
}
