// ===================== transcript-level specification (the 0.4.0 Fiat-Shamir layout written down once) =====================
pub open spec fn absorb_points(log: Seq<TEvent>, label: Seq<u8>, pts: Seq<CP>) -> Seq<TEvent>
  decreases pts.len()
{
   if pts.len() == 0 { log } else { absorb_points(log, label, pts.drop_last()).push(TEvent::Append(label, cp_bytes(pts.last()))) }
}
pub open spec fn absorb_promises(log: Seq<TEvent>, ps: Seq<Option<u64>>) -> Seq<TEvent>
  decreases ps.len()
{
   if ps.len() == 0 { log } else { absorb_promises(log, ps.drop_last()).push(TEvent::Append(b"vi - minimum_value"@, le64(promise_val(ps.last())))) }
}
pub open spec fn statement_log(log0: Seq<TEvent>, h: CP, g: Seq<CP>, n: usize, t: usize, m: usize, cs: Seq<CP>, ps: Seq<Option<u64>>) -> Seq<TEvent>
{
   let l1 = log0.push(TEvent::Append(b"dom-sep"@, b"Bulletproofs+ Range Proof"@)).push(TEvent::Append(b"H"@, cp_bytes(h)));
   let l2 = absorb_points(l1, b"G"@, g);
   let l3 = l2.push(TEvent::Append(b"N"@, le64(n as u64))).push(TEvent::Append(b"T"@, le64(t as u64))).push(TEvent::Append(b"M"@, le64(m as u64)));
   let l4 = absorb_points(l3, b"Ci"@, cs);
   absorb_promises(l4, ps)
}
pub open spec fn chal(log: Seq<TEvent>, label: Seq<u8>) -> Scalar { wide_reduce(strobe_prf(log, label, 64)) }
pub open spec fn log_yz(log: Seq<TEvent>, a: CP) -> Seq<TEvent> {
    log.push(TEvent::Append(b"A"@, cp_bytes(a))).push(TEvent::Challenge(b"y"@, 64)).push(TEvent::Challenge(b"z"@, 64))
}
pub open spec fn log_round(log: Seq<TEvent>, l: CP, r: CP) -> Seq<TEvent> {
    log.push(TEvent::Append(b"L"@, cp_bytes(l))).push(TEvent::Append(b"R"@, cp_bytes(r))).push(TEvent::Challenge(b"e"@, 64))
}
pub open spec fn log_rounds(log: Seq<TEvent>, li: Seq<CP>, ri: Seq<CP>, k: nat) -> Seq<TEvent>
    decreases k
{
    if k == 0 { log } else { log_round(log_rounds(log, li, ri, (k - 1) as nat), li[k - 1], ri[k - 1]) }
}
pub open spec fn round_chal(log: Seq<TEvent>, li: Seq<CP>, ri: Seq<CP>, j: nat) -> Scalar {
    let pre = log_rounds(log, li, ri, j);
    chal(pre.push(TEvent::Append(b"L"@, cp_bytes(li[j as int]))).push(TEvent::Append(b"R"@, cp_bytes(ri[j as int]))), b"e"@)
}
pub open spec fn log_final(log: Seq<TEvent>, a1: CP, b: CP) -> Seq<TEvent> {
    log.push(TEvent::Append(b"A1"@, cp_bytes(a1))).push(TEvent::Append(b"B"@, cp_bytes(b))).push(TEvent::Challenge(b"e"@, 64))
}
pub open spec fn absorb_scalars(log: Seq<TEvent>, label: Seq<u8>, xs: Seq<Scalar>) -> Seq<TEvent>
  decreases xs.len()
{
   if xs.len() == 0 { log } else { absorb_scalars(log, label, xs.drop_last()).push(TEvent::Append(label, scalar_bytes(xs.last()))) }
}
pub open spec fn log_responses(log: Seq<TEvent>, r1: Scalar, s1: Scalar, d1: Seq<Scalar>) -> Seq<TEvent> {
    absorb_scalars(log.push(TEvent::Append(b"r1"@, scalar_bytes(r1))).push(TEvent::Append(b"s1"@, scalar_bytes(s1))), b"d1"@, d1)
}
pub proof fn lemma_absorb_points_step(log: Seq<TEvent>, label: Seq<u8>, pts: Seq<CP>, k: int)
    requires 0 <= k < pts.len()
    ensures absorb_points(log, label, pts.take(k + 1)) == absorb_points(log, label, pts.take(k)).push(TEvent::Append(label, cp_bytes(pts[k])))
{
    assert(pts.take(k + 1).drop_last() == pts.take(k));
    assert(pts.take(k + 1).last() == pts[k]);
}
pub proof fn lemma_absorb_scalars_step(log: Seq<TEvent>, label: Seq<u8>, xs: Seq<Scalar>, k: int)
    requires 0 <= k < xs.len()
    ensures absorb_scalars(log, label, xs.take(k + 1)) == absorb_scalars(log, label, xs.take(k)).push(TEvent::Append(label, scalar_bytes(xs[k])))
{
    assert(xs.take(k + 1).drop_last() == xs.take(k));
    assert(xs.take(k + 1).last() == xs[k]);
}
pub proof fn lemma_absorb_promises_step(log: Seq<TEvent>, ps: Seq<Option<u64>>, k: int)
    requires 0 <= k < ps.len()
    ensures absorb_promises(log, ps.take(k + 1)) == absorb_promises(log, ps.take(k)).push(TEvent::Append(b"vi - minimum_value"@, le64(promise_val(ps[k]))))
{
    assert(ps.take(k + 1).drop_last() == ps.take(k));
    assert(ps.take(k + 1).last() == ps[k]);
}
// witness serialisation that rekeys the transcript RNG (C14): le64(v) || bytes(r_0) || ... per opening, in order
pub open spec fn opening_bytes(o: CommitmentOpening) -> Seq<u8> { le64(o.v) + scalars_bytes(o.r@) }
pub open spec fn spec_witness_bytes(os: Seq<CommitmentOpening>) -> Seq<u8>
    decreases os.len()
{ if os.len() == 0 { Seq::empty() } else { spec_witness_bytes(os.drop_last()) + opening_bytes(os.last()) } }
pub open spec fn wit_key(w: Option<Seq<u8>>) -> Seq<(Seq<u8>, Seq<u8>)> {
    match w { Some(b) => seq![("witness".spec_bytes(), b)], None => Seq::empty() }
}
pub open spec fn trng_state(log: Seq<TEvent>, w: Option<Seq<u8>>, ext: RngSt) -> RngSt {
    RngSt { key: RngKey { log: log, wit: wit_key(w), ext: rng_ext_token(ext) }, ctr: 0 }
}
impl<'a, R: CryptoRngCore> RangeProofTranscript<'a, P, R> {
    pub open spec fn tlog(&self) -> Seq<TEvent> { (*self.transcript).log() }
    pub open spec fn wbytes(&self) -> Option<Seq<u8>> { match self.bytes { Some(z) => Some(z.inner()@), None => None } }
}
pub open spec fn min_nat(a: nat, b: nat) -> nat { if a <= b { a } else { b } }
// the four kinds of challenge of one proof, as the oracle applied to the specified log prefixes
pub open spec fn spec_challenges(ctx: Seq<TEvent>, hc: CP, gc: Seq<CP>, n: usize, t: usize, st: RangeStatement<P>, pr: RangeProof<P>) -> (Scalar, Scalar, Seq<Scalar>, Scalar) {
    let l0 = statement_log(ctx, hc, gc, n, t, st.commitments@.len() as usize, st.commitments_compressed@, st.minimum_value_promises@);
    let l1 = l0.push(TEvent::Append(b"A"@, cp_bytes(pr.a)));
    let y = chal(l1, b"y"@);
    let z = chal(l1.push(TEvent::Challenge(b"y"@, 64)), b"z"@);
    let l2 = log_yz(l0, pr.a);
    let k = min_nat(pr.li@.len(), pr.ri@.len());
    let es = Seq::new(k, |j: int| round_chal(l2, pr.li@, pr.ri@, j as nat));
    let l3 = log_rounds(l2, pr.li@, pr.ri@, k);
    let e = chal(l3.push(TEvent::Append(b"A1"@, cp_bytes(pr.a1))).push(TEvent::Append(b"B"@, cp_bytes(pr.b))), b"e"@);
    (y, z, es, e)
}
pub open spec fn full_log(ctx: Seq<TEvent>, hc: CP, gc: Seq<CP>, n: usize, t: usize, st: RangeStatement<P>, pr: RangeProof<P>) -> Seq<TEvent> {
    let l0 = statement_log(ctx, hc, gc, n, t, st.commitments@.len() as usize, st.commitments_compressed@, st.minimum_value_promises@);
    let l2 = log_yz(l0, pr.a);
    let k = min_nat(pr.li@.len(), pr.ri@.len());
    let l3 = log_rounds(l2, pr.li@, pr.ri@, k);
    log_responses(log_final(l3, pr.a1, pr.b), pr.r1, pr.s1, pr.d1@)
}
// log_rounds only reads the first k entries of the L/R sequences
pub proof fn lemma_log_rounds_prefix(log: Seq<TEvent>, li: Seq<CP>, ri: Seq<CP>, k: nat, n: nat)
    requires k <= n <= li.len(), n <= ri.len()
    ensures log_rounds(log, li, ri, k) == log_rounds(log, li.take(n as int), ri.take(n as int), k)
    decreases k
{
    if k > 0 { lemma_log_rounds_prefix(log, li, ri, (k - 1) as nat, n); }
}
