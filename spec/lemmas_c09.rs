// ===================== U17: mask recovery composes with the prover's d1 (C09), pure algebra over the ring axioms =====================
// per-round term as the prover adds it
pub open spec fn c09_term(seed: Scalar, es: Seq<Scalar>, k: int, t: int) -> Scalar {
    s_add(s_mul(nonce_val(seed, "dL".spec_bytes(), Some(t as usize), Some(k as usize)), s_mul(es[t], es[t])),
          s_mul(nonce_val(seed, "dR".spec_bytes(), Some(t as usize), Some(k as usize)), s_mul(s_inv(es[t]), s_inv(es[t]))))
}
pub open spec fn c09_sum(seed: Scalar, es: Seq<Scalar>, k: int, t: nat) -> Scalar
    decreases t
{ if t == 0 { Scalar::ZERO } else { s_add(c09_sum(seed, es, k, (t - 1) as nat), c09_term(seed, es, k, t - 1)) } }

proof fn lemma_neg_zero() ensures s_neg(Scalar::ZERO) == Scalar::ZERO
{
    broadcast use group_ring;
    assert(s_add(Scalar::ZERO, s_neg(Scalar::ZERO)) == Scalar::ZERO);
    assert(s_add(s_neg(Scalar::ZERO), Scalar::ZERO) == s_neg(Scalar::ZERO));
}
// (x + t) - x == t
proof fn lemma_cancel_add(x: Scalar, t: Scalar) ensures s_sub(s_add(x, t), x) == t
{
    broadcast use group_ring;
    assert(s_add(s_add(x, t), s_neg(x)) == s_add(t, s_add(x, s_neg(x))));
}
// (t * a) * inv(a) == t
proof fn lemma_cancel_mul(t: Scalar, a: Scalar) requires a != Scalar::ZERO ensures s_mul(s_mul(t, a), s_inv(a)) == t
{
    broadcast use group_ring;
    ax_inv(a);
    assert(s_mul(s_mul(t, a), s_inv(a)) == s_mul(t, s_mul(a, s_inv(a))));
}
// (x - a) - b == x - (a + b)
proof fn lemma_sub_sub(x: Scalar, a: Scalar, b: Scalar) ensures s_sub(s_sub(x, a), b) == s_sub(x, s_add(a, b))
{
    broadcast use group_ring;
    let s = s_add(a, b); let n = s_add(s_neg(a), s_neg(b));
    assert(s_add(s, n) == s_add(s_add(a, s_neg(a)), s_add(b, s_neg(b))));
    assert(s_add(s, n) == Scalar::ZERO);
    assert(s_add(s_neg(s), s_add(s, n)) == s_add(s_add(s_neg(s), s), n));
    assert(s_add(s_neg(s), s) == Scalar::ZERO);
    assert(s_add(Scalar::ZERO, n) == n);
    assert(s_neg(s) == n);
}
// prover: the accumulated blinding after t rounds is the start value plus the sum of the per-round terms
pub proof fn lemma_alpha_rounds_is_sum(a: Scalar, seed: Scalar, es: Seq<Scalar>, ext: nat, k: int, t: nat)
    requires 0 <= k < ext, t <= es.len()
    ensures alpha_rounds(a, seeded_dl(seed, es.len(), ext), seeded_dr(seed, es.len(), ext), es, k, t) == s_add(a, c09_sum(seed, es, k, t))
    decreases t
{
    broadcast use group_ring;
    if t > 0 {
        lemma_alpha_rounds_is_sum(a, seed, es, ext, k, (t - 1) as nat);
        assert(seeded_dl(seed, es.len(), ext)[t - 1][k] == nonce_val(seed, "dL".spec_bytes(), Some((t - 1) as usize), Some(k as usize)));
        assert(seeded_dr(seed, es.len(), ext)[t - 1][k] == nonce_val(seed, "dR".spec_bytes(), Some((t - 1) as usize), Some(k as usize)));
    }
}
// verifier: the sequential subtraction removes exactly that sum
pub proof fn lemma_mask_fold_is_sub(m: Scalar, seed: Scalar, es: Seq<Scalar>, k: usize, t: nat)
    requires t <= es.len()
    ensures mask_fold(m, csq_of(es), csqinv_of(es), seed, k, t) == s_sub(m, c09_sum(seed, es, k as int, t))
    decreases t
{
    if t == 0 {
        broadcast use group_ring;
        lemma_neg_zero();
    } else {
        let p = (t - 1) as nat;
        lemma_mask_fold_is_sub(m, seed, es, k, p);
        let dl = nonce_val(seed, "dL".spec_bytes(), Some(p as usize), Some(k));
        let dr = nonce_val(seed, "dR".spec_bytes(), Some(p as usize), Some(k));
        let a = s_mul(csq_of(es)[p as int], dl);
        let b = s_mul(csqinv_of(es)[p as int], dr);
        let prev = c09_sum(seed, es, k as int, p);
        lemma_sub_sub(s_sub(m, prev), a, b);
        lemma_sub_sub(m, prev, s_add(a, b));
        assert(s_add(a, b) == c09_term(seed, es, k as int, p as int)) by {
            broadcast use group_ring;
            assert(csq_of(es)[p as int] == s_mul(es[p as int], es[p as int]));
            assert(csqinv_of(es)[p as int] == s_mul(s_inv(es[p as int]), s_inv(es[p as int])));
            assert((k as int) as usize == k);
        }
    }
}
// scalar identity of the round trip
proof fn lemma_mask_roundtrip_scalar(eta: Scalar, d: Scalar, e: Scalar, e2: Scalar, alpha: Scalar, zy: Scalar, r: Scalar, sum: Scalar)
    requires e2 != Scalar::ZERO, zy != Scalar::ZERO
    ensures ({
        let d1 = s_add(s_add(eta, s_mul(d, e)), s_mul(s_add(s_add(alpha, s_mul(zy, r)), sum), e2));
        let m1 = s_mul(s_sub(s_sub(d1, eta), s_mul(e, d)), s_inv(e2));
        let m2 = s_sub(s_sub(m1, alpha), sum);
        s_mul(m2, s_inv(zy)) == r
    })
{
    let big = s_add(s_add(alpha, s_mul(zy, r)), sum);
    let t = s_mul(big, e2);
    let d1 = s_add(s_add(eta, s_mul(d, e)), t);
    assert(s_sub(s_sub(d1, eta), s_mul(e, d)) == t) by {
        broadcast use group_ring;
        let de = s_mul(d, e);
        assert(s_mul(e, d) == de);
        assert(d1 == s_add(eta, s_add(de, t)));
        lemma_cancel_add(eta, s_add(de, t));
        lemma_cancel_add(de, t);
    }
    lemma_cancel_mul(big, e2);
    assert(s_sub(s_sub(big, alpha), sum) == s_mul(zy, r)) by {
        broadcast use group_ring;
        let q = s_mul(zy, r);
        assert(big == s_add(alpha, s_add(q, sum)));
        lemma_cancel_add(alpha, s_add(q, sum));
        assert(s_add(q, sum) == s_add(sum, q));
        lemma_cancel_add(sum, q);
    }
    assert(s_mul(s_mul(zy, r), s_inv(zy)) == r) by {
        broadcast use group_ring;
        assert(s_mul(zy, r) == s_mul(r, zy));
        lemma_cancel_mul(r, zy);
    }
}
// C09: for a single commitment under a seed, what the verifier recovers from the prover's d1 is the blinding factor, component by component
//@ prop(C09) C09.lemma_mask_roundtrip
pub proof fn lemma_c09_mask_roundtrip(seed: Scalar, rvec: Seq<Scalar>, ch: (Scalar, Scalar, Seq<Scalar>, Scalar), n: nat, ext: nat, k: int)
    requires 0 <= k < ext, ext <= 6, rvec.len() == ext, ch.0 != Scalar::ZERO, ch.1 != Scalar::ZERO, ch.3 != Scalar::ZERO
    ensures
        mask_k(seed, d1_spec(seed, seq![rvec], ch, n, 1, ext, k), ch.3, sq(ch.3), s_mul(sq(ch.1), s_mul(s_pow(ch.0, n), ch.0)),
               csq_of(ch.2), csqinv_of(ch.2), k as usize, ch.2.len()) == rvec[k]
{
    let (y, z, es, e) = ch;
    let rounds = es.len();
    let a0 = nonce_val(seed, "alpha".spec_bytes(), None, Some(k as usize));
    let eta = nonce_val(seed, "eta".spec_bytes(), None, Some(k as usize));
    let d = nonce_val(seed, "d".spec_bytes(), None, Some(k as usize));
    let zy = s_mul(sq(z), s_mul(s_pow(y, n), y));
    let r = rvec[k];
    let sum = c09_sum(seed, es, k, rounds);
    // prover side: a1 = a0 + zy*r, a2 = a1 + sum
    let a1 = alpha_off(a0, seq![rvec], sq(z), s_pow(y, n + 1), k, 1);
    assert(a1 == s_add(a0, s_mul(zy, r))) by {
        broadcast use group_ring;
        reveal_with_fuel(alpha_off, 2);
        ax_pow_succ(sq(z), 0); ax_pow_zero(sq(z));
        assert(s_pow(sq(z), 1) == sq(z));
        ax_pow_succ(y, n);
        assert(s_pow(y, n + 1) == s_mul(y, s_pow(y, n)));
        assert(seq![rvec][0][k] == r);
        assert(s_mul(s_mul(sq(z), r), s_mul(y, s_pow(y, n))) == s_mul(s_mul(sq(z), s_mul(s_pow(y, n), y)), r));
    }
    lemma_alpha_rounds_is_sum(a1, seed, es, ext, k, rounds);
    let a2 = s_add(a1, sum);
    assert(d1_spec(seed, seq![rvec], ch, n, 1, ext, k) == s_add(s_add(eta, s_mul(d, e)), s_mul(a2, sq(e))));
    // nonzero denominators
    if s_mul(e, e) == Scalar::ZERO { ax_no_zero_div(e, e); }
    if s_mul(z, z) == Scalar::ZERO { ax_no_zero_div(z, z); }
    lemma_pow_nonzero(y, n);
    if s_mul(s_pow(y, n), y) == Scalar::ZERO { ax_no_zero_div(s_pow(y, n), y); }
    if zy == Scalar::ZERO { ax_no_zero_div(sq(z), s_mul(s_pow(y, n), y)); }
    assert(sq(e) != Scalar::ZERO && zy != Scalar::ZERO);
    // verifier side
    let d1 = s_add(s_add(eta, s_mul(d, e)), s_mul(s_add(s_add(a0, s_mul(zy, r)), sum), sq(e)));
    let m1 = s_mul(s_sub(s_sub(d1, eta), s_mul(e, d)), s_inv(sq(e)));
    let m2 = s_sub(m1, a0);
    lemma_mask_fold_is_sub(m2, seed, es, k as usize, rounds);
    lemma_mask_roundtrip_scalar(eta, d, e, sq(e), a0, zy, r, sum);
    assert((k as usize) as int == k);
}
// C09 end to end: the prover's postcondition composed with the verifier's postcondition gives back the blinding vector.
// (statement with one commitment and a seed; the prover absorbs compress(h_base), the verifier h_base_compressed)
//@ prop(C09) C09.lemma_end_to_end
pub proof fn lemma_c09_end_to_end(st: RangeStatement<P>, w: RangeWitness, pr: RangeProof<P>, ctx: Seq<TEvent>, action: VerifyAction)
    requires
        st.seed_nonce is Some, st.commitments@.len() == 1, w.openings@.len() == 1,
        st.generators.pc_gens.h_base_compressed == p_compress(st.generators.pc_gens.h_base),
        (st.generators.pc_gens.extension_degree as nat) <= 6,
        w.openings@[0].r@.len() == st.generators.pc_gens.extension_degree as nat,
        pr.d1@.len() == st.generators.pc_gens.extension_degree as nat,
        action != VerifyAction::VerifyOnly,
        // postcondition of prove_with_rng (C04.prove_challenges_are_spec_challenges)
        prover_d1_ok(st, w, pr, spec_challenges(ctx, p_compress(st.generators.pc_gens.h_base), st.generators.pc_gens.g_base_compressed_vec@,
            st.generators.bp_gens.gens_capacity, st.generators.pc_gens.extension_degree as usize, st, pr)),
    ensures
        // what verify's postcondition (C09.verify_masks_positionwise) says is returned for this member
        mask_spec(action, st, pr, member_challenges(ctx, seq![st], seq![pr], 0), st.generators.bp_gens.gens_capacity, st.generators.pc_gens.extension_degree as usize)
            == Some(w.openings@[0].r@),
{
    let ext = st.generators.pc_gens.extension_degree as usize;
    let n = st.generators.bp_gens.gens_capacity;
    let ch = member_challenges(ctx, seq![st], seq![pr], 0);
    assert(ch == spec_challenges(ctx, p_compress(st.generators.pc_gens.h_base), st.generators.pc_gens.g_base_compressed_vec@, n, ext, st, pr));
    let seed = st.seed_nonce->Some_0;
    let rvec = w.openings@[0].r@;
    assert(openings_r(w) =~= seq![rvec]);
    let nm = (st.commitments@.len() * n) as nat;
    assert(nm == n as nat) by(nonlinear_arith) requires nm == (1 * n) as nat;
    let mv = mask_vec(seed, pr.d1@, ch.0, ch.1, ch.2, ch.3, nm, ext);
    assert forall|k: int| 0 <= k < ext implies #[trigger] mv[k] == rvec[k] by {
        lemma_c09_mask_roundtrip(seed, rvec, ch, n as nat, ext as nat, k);
        assert(pr.d1@[k] == d1_spec(seed, seq![rvec], ch, nm, 1, ext as nat, k));
    }
    assert(mv =~= rvec);
}
