// ===================== seed-derived nonces and the recovered-mask formula (C09) =====================
pub open spec fn idx_part(tag: Seq<u8>, i: Option<usize>) -> Seq<u8> {
    match i { Some(v) => tag + le32(v as u32), None => Seq::empty() }
}
pub open spec fn nonce_key(seed: Scalar, j: Option<usize>, k: Option<usize>) -> Seq<u8> {
    seq![0u8] + scalar_bytes(seed) + idx_part(b"j"@, j) + idx_part(b"k"@, k)
}
// the documented KDF: keyed Blake2b-512 (key = 0x00 || seed || ["j"||le32(j)] || ["k"||le32(k)], empty salt, label as persona), wide-reduced
pub open spec fn nonce_val(seed: Scalar, label: Seq<u8>, j: Option<usize>, k: Option<usize>) -> Scalar {
    wide_reduce(blake2b_mac(nonce_key(seed, j, k), Seq::empty(), label))
}
pub open spec fn nonce_ok(label: Seq<u8>, j: Option<usize>, k: Option<usize>) -> bool {
    label.len() <= 16 && (j is Some ==> j->Some_0 <= u32::MAX) && (k is Some ==> k->Some_0 <= u32::MAX)
}
// sequential (T2) form of the recovered mask component k
pub open spec fn mask_fold(m: Scalar, csq: Seq<Scalar>, csqinv: Seq<Scalar>, seed: Scalar, k: usize, j: nat) -> Scalar
    decreases j
{
    if j == 0 { m } else {
        let p = mask_fold(m, csq, csqinv, seed, k, (j - 1) as nat);
        s_sub(s_sub(p, s_mul(csq[j - 1], nonce_val(seed, "dL".spec_bytes(), Some((j - 1) as usize), Some(k)))),
              s_mul(csqinv[j - 1], nonce_val(seed, "dR".spec_bytes(), Some((j - 1) as usize), Some(k))))
    }
}
pub open spec fn mask_k(seed: Scalar, d1k: Scalar, e: Scalar, e_square: Scalar, zy: Scalar, csq: Seq<Scalar>, csqinv: Seq<Scalar>, k: usize, rounds: nat) -> Scalar {
    let m1 = s_mul(s_sub(s_sub(d1k, nonce_val(seed, "eta".spec_bytes(), None, Some(k))), s_mul(e, nonce_val(seed, "d".spec_bytes(), None, Some(k)))), s_inv(e_square));
    let m2 = s_sub(m1, nonce_val(seed, "alpha".spec_bytes(), None, Some(k)));
    s_mul(mask_fold(m2, csq, csqinv, seed, k, rounds), s_inv(zy))
}
pub broadcast axiom fn ax_label_lens()
    ensures #[trigger] "eta".spec_bytes().len() == 3, "d".spec_bytes().len() == 1, "alpha".spec_bytes().len() == 5, "dL".spec_bytes().len() == 2, "dR".spec_bytes().len() == 2;
