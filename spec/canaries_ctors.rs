// vacuity guards: each of these must FAIL
proof fn vx_canary_axioms() ensures false { broadcast use group_ring; }
proof fn vx_canary_statement_ctor_ok(s: RangeStatement<P>) requires s.ctor_ok() ensures false { reveal(RangeStatement::ctor_ok); reveal(RangeParameters::ctor_ok); }
