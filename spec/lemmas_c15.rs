// ===================== U17: codec round trips (C15), pure lemmas over the from_bytes / to_bytes contracts =====================
// dalek invariants of the encodings (trusted): scalars are kept reduced, encodings are injective
pub broadcast axiom fn ax_scalar_bytes_canonical(s: Scalar) ensures is_canonical(#[trigger] scalar_bytes(s));
pub axiom fn ax_scalar_bytes_inj(a: Scalar, b: Scalar) requires scalar_bytes(a) == scalar_bytes(b) ensures a == b;
pub axiom fn ax_cp_bytes_inj(a: CP, b: CP) requires cp_bytes(a) == cp_bytes(b) ensures a == b;

pub proof fn lemma_scalars_bytes_len(rs: Seq<Scalar>)
    ensures scalars_bytes(rs).len() == 32 * rs.len()
    decreases rs.len()
{
    broadcast use ax_scalar_bytes_len;
    if rs.len() > 0 { lemma_scalars_bytes_len(rs.drop_last()); }
}
pub proof fn lemma_enc_pairs_len(li: Seq<CP>, ri: Seq<CP>, k: nat)
    ensures enc_pairs(li, ri, k).len() == 64 * k
    decreases k
{
    broadcast use ax_cp_bytes_len;
    if k > 0 { lemma_enc_pairs_len(li, ri, (k - 1) as nat); }
}
pub open spec fn enc_rounds(p: RangeProof<P>) -> nat { if p.li@.len() <= p.ri@.len() { p.li@.len() } else { p.ri@.len() } }
// C15: encoded length = 1 + 32 * (5 + d + 2k)
//@ prop(C15) C15.lemma_encoded_length
pub proof fn lemma_enc_len(p: RangeProof<P>)
    ensures enc(p).len() == 1 + 32 * (5 + p.d1@.len() + 2 * enc_rounds(p))
{
    broadcast use ax_scalar_bytes_len, ax_cp_bytes_len;
    lemma_scalars_bytes_len(p.d1@);
    lemma_enc_pairs_len(p.li@, p.ri@, enc_rounds(p));
}
// slot k of scalars_bytes
pub proof fn lemma_scalars_bytes_slot(rs: Seq<Scalar>, k: int)
    requires 0 <= k < rs.len()
    ensures scalars_bytes(rs).subrange(32 * k, 32 * k + 32) == scalar_bytes(rs[k])
    decreases rs.len()
{
    broadcast use ax_scalar_bytes_len;
    lemma_scalars_bytes_len(rs.drop_last());
    lemma_scalars_bytes_len(rs);
    if k == rs.len() - 1 {
        assert(scalars_bytes(rs).subrange(32 * k, 32 * k + 32) =~= scalar_bytes(rs.last()));
    } else {
        lemma_scalars_bytes_slot(rs.drop_last(), k);
        assert(scalars_bytes(rs).subrange(32 * k, 32 * k + 32) =~= scalars_bytes(rs.drop_last()).subrange(32 * k, 32 * k + 32));
    }
}
pub proof fn lemma_enc_pairs_slot(li: Seq<CP>, ri: Seq<CP>, n: nat, k: int)
    requires 0 <= k < n
    ensures enc_pairs(li, ri, n).subrange(64 * k, 64 * k + 32) == cp_bytes(li[k]), enc_pairs(li, ri, n).subrange(64 * k + 32, 64 * k + 64) == cp_bytes(ri[k])
    decreases n
{
    broadcast use ax_cp_bytes_len;
    lemma_enc_pairs_len(li, ri, (n - 1) as nat);
    lemma_enc_pairs_len(li, ri, n);
    let prev = enc_pairs(li, ri, (n - 1) as nat);
    if k == n - 1 {
        assert(enc_pairs(li, ri, n).subrange(64 * k, 64 * k + 32) =~= cp_bytes(li[k]));
        assert(enc_pairs(li, ri, n).subrange(64 * k + 32, 64 * k + 64) =~= cp_bytes(ri[k]));
    } else {
        lemma_enc_pairs_slot(li, ri, (n - 1) as nat, k);
        assert(enc_pairs(li, ri, n).subrange(64 * k, 64 * k + 32) =~= prev.subrange(64 * k, 64 * k + 32));
        assert(enc_pairs(li, ri, n).subrange(64 * k + 32, 64 * k + 64) =~= prev.subrange(64 * k + 32, 64 * k + 64));
    }
}
// the element view of enc(p): which 32-byte slot holds what
pub open spec fn enc_view_ok(p: RangeProof<P>) -> bool {
    let b = enc(p); let d = p.d1@.len() as int; let k = enc_rounds(p) as int;
    &&& b.len() == 1 + 32 * (5 + d + 2 * k)
    &&& b[0] == p.extension_degree as u8
    &&& cnt(b) == d + 5 + 2 * k
    &&& forall|i: int| 0 <= i < d ==> #[trigger] elem(b, i) == scalar_bytes(p.d1@[i])
    &&& elem(b, d) == cp_bytes(p.a) && elem(b, d + 1) == cp_bytes(p.a1) && elem(b, d + 2) == cp_bytes(p.b)
    &&& elem(b, d + 3) == scalar_bytes(p.r1) && elem(b, d + 4) == scalar_bytes(p.s1)
    &&& forall|i: int| 0 <= i < k ==> #[trigger] elem(b, d + 5 + 2 * i) == cp_bytes(p.li@[i])
    &&& forall|i: int| 0 <= i < k ==> #[trigger] elem(b, d + 5 + 2 * i + 1) == cp_bytes(p.ri@[i])
}
pub proof fn lemma_enc_elems(p: RangeProof<P>)
    ensures enc_view_ok(p)
{
    broadcast use ax_scalar_bytes_len, ax_cp_bytes_len;
    let b = enc(p); let d = p.d1@.len() as int; let k = enc_rounds(p) as int;
    lemma_enc_len(p);
    lemma_scalars_bytes_len(p.d1@);
    lemma_enc_pairs_len(p.li@, p.ri@, k as nat);
    let sb = scalars_bytes(p.d1@);
    let ep = enc_pairs(p.li@, p.ri@, k as nat);
    let head = enc_head(p);
    assert(head.len() == 1 + 32 * d + 160);
    assert forall|i: int| 0 <= i < d implies #[trigger] elem(b, i) == scalar_bytes(p.d1@[i]) by {
        lemma_scalars_bytes_slot(p.d1@, i);
        assert(elem(b, i) =~= sb.subrange(32 * i, 32 * i + 32));
    }
    assert(elem(b, d) =~= cp_bytes(p.a));
    assert(elem(b, d + 1) =~= cp_bytes(p.a1));
    assert(elem(b, d + 2) =~= cp_bytes(p.b));
    assert(elem(b, d + 3) =~= scalar_bytes(p.r1));
    assert(elem(b, d + 4) =~= scalar_bytes(p.s1));
    assert forall|i: int| 0 <= i < k implies #[trigger] elem(b, d + 5 + 2 * i) == cp_bytes(p.li@[i]) by {
        lemma_enc_pairs_slot(p.li@, p.ri@, k as nat, i);
        assert(elem(b, d + 5 + 2 * i) =~= ep.subrange(64 * i, 64 * i + 32));
    }
    assert forall|i: int| 0 <= i < k implies #[trigger] elem(b, d + 5 + 2 * i + 1) == cp_bytes(p.ri@[i]) by {
        lemma_enc_pairs_slot(p.li@, p.ri@, k as nat, i);
        assert(elem(b, d + 5 + 2 * i + 1) =~= ep.subrange(64 * i + 32, 64 * i + 64));
    }
    assert(b.len() == 1 + 32 * (5 + d + 2 * k));
    assert(b[0] == p.extension_degree as u8) by { assert(head[0] == p.extension_degree as u8); assert(b[0] == head[0]); }
    assert((b.len() - 1) / 32 == 5 + d + 2 * k) by { assert(b.len() - 1 == 32 * (5 + d + 2 * k)); }
    assert(cnt(b) == d + 5 + 2 * k);
}
// two byte strings of the same length with the same first byte and the same elements are equal
pub proof fn lemma_eq_by_elems(a: Seq<u8>, b: Seq<u8>)
    requires a.len() == b.len(), a.len() >= 1, (a.len() - 1) % 32 == 0, a[0] == b[0], forall|k: int| 0 <= k < cnt(a) ==> #[trigger] elem(a, k) == elem(b, k)
    ensures a == b
{
    assert forall|i: int| 0 <= i < a.len() implies a[i] == b[i] by {
        if i > 0 {
            let k = (i - 1) / 32; let o = (i - 1) % 32;
            assert(0 <= k < cnt(a));
            assert(elem(a, k)[o] == a[1 + 32 * k + o]);
            assert(elem(b, k)[o] == b[1 + 32 * k + o]);
            assert(1 + 32 * k + o == i);
        }
    }
    assert(a =~= b);
}
// what from_bytes' postconditions (C15.decode_fields, C15.decode_rounds, accept_spec) say about (b, p)
pub open spec fn decodes_to(b: Seq<u8>, p: RangeProof<P>) -> bool {
    let d = b[0] as int;
    &&& accept_spec(b)
    &&& p.extension_degree as u8 == b[0] && p.d1@.len() == d
    &&& forall|k: int| 0 <= k < d ==> scalar_bytes(#[trigger] p.d1@[k]) == elem(b, k)
    &&& cp_bytes(p.a) == elem(b, d) && cp_bytes(p.a1) == elem(b, d + 1) && cp_bytes(p.b) == elem(b, d + 2)
    &&& scalar_bytes(p.r1) == elem(b, d + 3) && scalar_bytes(p.s1) == elem(b, d + 4)
    &&& p.li@.len() == p.ri@.len() && p.li@.len() >= 1 && cnt(b) == d + 5 + 2 * p.li@.len()
    &&& forall|k: int| 0 <= k < p.li@.len() ==> cp_bytes(#[trigger] p.li@[k]) == elem(b, d + 5 + 2 * k) && cp_bytes(p.ri@[k]) == elem(b, d + 5 + 2 * k + 1)
}
// C15: whenever decoding succeeds, re-encoding returns the identical bytes
//@ prop(C15) C15.lemma_decode_then_encode
pub proof fn lemma_decode_then_encode(b: Seq<u8>, p: RangeProof<P>)
    requires decodes_to(b, p)
    ensures enc(p) == b
{
    lemma_enc_elems(p);
    let e = enc(p); let d = b[0] as int; let k = p.li@.len() as int;
    assert(enc_rounds(p) == k);
    assert(e.len() == b.len()) by { assert((b.len() - 1) == 32 * cnt(b)); }
    assert(p.d1@.len() == d);
    assert(cnt(e) == d + 5 + 2 * k && cnt(b) == d + 5 + 2 * k);
    assert forall|i: int| 0 <= i < cnt(e) implies #[trigger] elem(e, i) == elem(b, i) by {
        if i < d { assert(elem(e, i) == scalar_bytes(p.d1@[i])); }
        else if i == d { } else if i == d + 1 { } else if i == d + 2 { } else if i == d + 3 { } else if i == d + 4 { }
        else {
            let j = (i - d - 5) / 2;
            assert(0 <= j < k);
            if (i - d - 5) % 2 == 0 { assert(i == d + 5 + 2 * j); assert(elem(e, d + 5 + 2 * j) == cp_bytes(p.li@[j])); }
            else { assert(i == d + 5 + 2 * j + 1); assert(elem(e, d + 5 + 2 * j + 1) == cp_bytes(p.ri@[j])); assert(elem(e, d + 5 + 2 * j) == cp_bytes(p.li@[j])); }
        }
    }
    lemma_eq_by_elems(e, b);
}
// a proof is encodable-decodable when its tag matches d1, the L/R vectors have equal nonzero length
pub open spec fn well_formed(p: RangeProof<P>) -> bool {
    p.d1@.len() == p.extension_degree as u8 as nat && 1 <= p.extension_degree as u8 <= 6 && p.li@.len() == p.ri@.len() && p.li@.len() >= 1
}
// C15: the encoding of a well-formed proof is accepted
//@ prop(C15) C15.lemma_encode_then_accept
pub proof fn lemma_encode_then_accept(p: RangeProof<P>)
    requires well_formed(p)
    ensures accept_spec(enc(p))
{
    broadcast use ax_scalar_bytes_canonical;
    lemma_enc_elems(p);
    let b = enc(p); let d = p.d1@.len() as int;
    assert(enc_rounds(p) == p.li@.len());
    assert(forall|k: int| 0 <= k < b[0] ==> is_canonical(#[trigger] elem(b, k)));
}
// ... and every proof it decodes to has the same encodings field by field (hence is the same proof, the encodings being injective)
//@ prop(C15) C15.lemma_encode_then_decode
pub proof fn lemma_encode_then_decode(p: RangeProof<P>, q: RangeProof<P>)
    requires well_formed(p), decodes_to(enc(p), q)
    ensures q.a == p.a && q.a1 == p.a1 && q.b == p.b && q.r1 == p.r1 && q.s1 == p.s1 && q.extension_degree as u8 == p.extension_degree as u8
        && q.d1@ =~= p.d1@ && q.li@ =~= p.li@ && q.ri@ =~= p.ri@
{
    lemma_enc_elems(p);
    let b = enc(p); let d = p.d1@.len() as int;
    assert(enc_rounds(p) == p.li@.len());
    ax_cp_bytes_inj(q.a, p.a); ax_cp_bytes_inj(q.a1, p.a1); ax_cp_bytes_inj(q.b, p.b);
    ax_scalar_bytes_inj(q.r1, p.r1); ax_scalar_bytes_inj(q.s1, p.s1);
    assert(q.li@.len() == p.li@.len());
    assert forall|k: int| 0 <= k < d implies q.d1@[k] == p.d1@[k] by { ax_scalar_bytes_inj(q.d1@[k], p.d1@[k]); }
    assert forall|k: int| 0 <= k < p.li@.len() implies q.li@[k] == p.li@[k] && q.ri@[k] == p.ri@[k] by { ax_cp_bytes_inj(q.li@[k], p.li@[k]); ax_cp_bytes_inj(q.ri@[k], p.ri@[k]); }
}
// C15 + C01: every proof the prover can output with at least one folding round is well-formed
// (shape = postcondition C15.prove_output_shape of prove_with_rng)
//@ prop(C15) C15.roundtrip_general
pub proof fn lemma_prover_output_well_formed(p: RangeProof<P>, ext: ExtensionDegree, nm: nat)
    requires p.d1@.len() == ext as usize, p.extension_degree == ext, p.li@.len() == p.ri@.len(), vstd::arithmetic::power2::pow2(p.li@.len()) == nm, nm >= 2
    ensures well_formed(p)
{
    vstd::arithmetic::power2::lemma2_to64();
    if p.li@.len() == 0 { assert(vstd::arithmetic::power2::pow2(0) == 1); }
}
// KNOWN FINDING (DESIGN section 8.2): with bits * aggregation == 1 the prover outputs zero folding rounds and the decoder refuses
// its own encoding. The obligation below is the statement the property asks for; it does not hold and is listed in known_findings.txt.
//@ prop(C15) C15.roundtrip_zero_rounds
pub proof fn lemma_prover_output_zero_rounds(p: RangeProof<P>, ext: ExtensionDegree)
    requires p.d1@.len() == ext as usize, p.extension_degree == ext, p.li@.len() == p.ri@.len(), vstd::arithmetic::power2::pow2(p.li@.len()) == 1
    ensures accept_spec(enc(p))
{
    lemma_enc_elems(p);
}
