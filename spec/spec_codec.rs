// ---- codec specification
pub open spec fn elem(b: Seq<u8>, k: int) -> Seq<u8> { b.subrange(1 + 32 * k, 1 + 32 * k + 32) }
pub open spec fn cnt(b: Seq<u8>) -> int { (b.len() - 1) / 32 }
pub open spec fn accept_spec(b: Seq<u8>) -> bool {
    &&& b.len() >= 1
    &&& 1 <= b[0] <= 6
    &&& (b.len() - 1) % 32 == 0
    &&& cnt(b) >= b[0] + 5 + 2
    &&& (cnt(b) - b[0] - 5) % 2 == 0
    &&& forall|k: int| 0 <= k < b[0] ==> is_canonical(#[trigger] elem(b, k))
    &&& is_canonical(elem(b, b[0] + 3))
    &&& is_canonical(elem(b, b[0] + 4))
}
pub open spec fn cx_ok(c: ChunksExact<'_, u8>, b: Seq<u8>) -> bool {
    &&& c.chunks().len() == cnt(b)
    &&& forall|k: int| 0 <= k < c.chunks().len() ==> #[trigger] c.chunks()[k] == elem(b, k)
    &&& c.tail().len() == (b.len() - 1) % 32
}
impl vstd::std_specs::convert::FromSpecImpl<CtOptionScalar> for Option<Scalar> {
    open spec fn obeys_from_spec() -> bool { false }
    open spec fn from_spec(c: CtOptionScalar) -> Option<Scalar> { arbitrary() }
}
pub proof fn lemma_chunks32(c: ChunksExact<'_, u8>, v: Seq<u8>)
    requires
        c.chunks().len() == v.len() / 32,
        forall|k: int| 0 <= k < c.chunks().len() ==> #[trigger] c.chunks()[k] == v.subrange(k * 32, k * 32 + 32),
    ensures forall|k: int| 0 <= k < c.chunks().len() ==> (#[trigger] c.chunks()[k]).len() == 32
{
    assert forall|k: int| 0 <= k < c.chunks().len() implies (#[trigger] c.chunks()[k]).len() == 32 by {
        assert(k * 32 + 32 <= v.len()) by(nonlinear_arith) requires 0 <= k < v.len() / 32;
    }
}

// ---- encoder specification: degree byte, d1, A, A1, B, r1, s1, interleaved L/R (zip truncation included)
pub open spec fn enc_pairs(li: Seq<CP>, ri: Seq<CP>, k: nat) -> Seq<u8>
    decreases k
{ if k == 0 { Seq::empty() } else { enc_pairs(li, ri, (k - 1) as nat) + cp_bytes(li[k - 1]) + cp_bytes(ri[k - 1]) } }
pub open spec fn enc_head(p: RangeProof<P>) -> Seq<u8> {
    seq![p.extension_degree as u8] + scalars_bytes(p.d1@) + cp_bytes(p.a) + cp_bytes(p.a1) + cp_bytes(p.b) + scalar_bytes(p.r1) + scalar_bytes(p.s1)
}
pub open spec fn enc(p: RangeProof<P>) -> Seq<u8> {
    enc_head(p) + enc_pairs(p.li@, p.ri@, if p.li@.len() <= p.ri@.len() { p.li@.len() } else { p.ri@.len() })
}
