// ===================== byte-level helpers shared by the transcript and codec specifications =====================
pub open spec fn scalars_bytes(rs: Seq<Scalar>) -> Seq<u8>
    decreases rs.len()
{ if rs.len() == 0 { Seq::empty() } else { scalars_bytes(rs.drop_last()) + scalar_bytes(rs.last()) } }
pub proof fn lemma_scalars_bytes_step(rs: Seq<Scalar>, k: int)
    requires 0 <= k < rs.len()
    ensures scalars_bytes(rs.take(k + 1)) == scalars_bytes(rs.take(k)) + scalar_bytes(rs[k])
{
    assert(rs.take(k + 1).drop_last() =~= rs.take(k));
    assert(rs.take(k + 1).last() == rs[k]);
}
pub broadcast axiom fn ax_cp_bytes_len(c: CP) ensures #[trigger] cp_bytes(c).len() == 32;
pub open spec fn promise_val(p: Option<u64>) -> u64 { match p { Some(v) => v, None => 0 } }
// ASCII string literals used as labels: their UTF-8 bytes are the corresponding byte-string literals (Verus does not reason about str bytes)
pub broadcast axiom fn ax_label_bytes()
    ensures #[trigger] "witness".spec_bytes() == b"witness"@, "eta".spec_bytes() == b"eta"@, "d".spec_bytes() == b"d"@, "alpha".spec_bytes() == b"alpha"@,
        "dL".spec_bytes() == b"dL"@, "dR".spec_bytes() == b"dR"@;
