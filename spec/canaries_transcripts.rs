proof fn vx_canary_axioms_t() ensures false { broadcast use group_ring, ax_scalar_bytes_len, ax_le64_len; }
