// ===================== C05: no proof element, commitment or prover message is ignored - its coefficient in the verification equation is nonzero =====================
pub proof fn lemma_mul_nonzero(a: Scalar, b: Scalar)
    requires a != Scalar::ZERO, b != Scalar::ZERO
    ensures s_mul(a, b) != Scalar::ZERO
{ if s_mul(a, b) == Scalar::ZERO { ax_no_zero_div(a, b); } }
pub proof fn lemma_neg_nonzero(a: Scalar)
    requires a != Scalar::ZERO
    ensures s_neg(a) != Scalar::ZERO
{
    broadcast use group_ring;
    if s_neg(a) == Scalar::ZERO { assert(s_add(a, s_neg(a)) == Scalar::ZERO); assert(s_add(a, Scalar::ZERO) == a); }
}
pub proof fn lemma_inv_nonzero(a: Scalar)
    requires a != Scalar::ZERO
    ensures s_inv(a) != Scalar::ZERO
{
    ax_inv(a); ax_one_ne_zero();
    if s_inv(a) == Scalar::ZERO { lemma_mul_zero_r(a); }
}
// the coefficients of the commitments, of A1, B, A and of every L_j, R_j (PV::dyn_scalars) are nonzero whenever the weight and the challenges are
//@ prop(C05,C02) C05.lemma_every_dynamic_coefficient_nonzero
pub proof fn lemma_dyn_coeffs_nonzero(pv: PV, i: int)
    requires pv.w != Scalar::ZERO, pv.e != Scalar::ZERO, pv.y != Scalar::ZERO, pv.z != Scalar::ZERO,
        forall|j: int| 0 <= j < pv.es.len() ==> #[trigger] pv.es[j] != Scalar::ZERO,
        0 <= i < pv.dyn_scalars().len(),
    ensures pv.dyn_scalars()[i] != Scalar::ZERO
{
    let w = pv.w; let e = pv.e; let r = pv.es.len() as int; let m = pv.m as int;
    lemma_mul_nonzero(e, e);
    lemma_neg_nonzero(pv.e2()); lemma_neg_nonzero(e); lemma_neg_nonzero(w);
    lemma_mul_nonzero(w, s_neg(e)); lemma_mul_nonzero(w, s_neg(pv.e2()));
    assert(pv.dyn_scalars().len() == m + 3 + r + r);
    if i < m {
        lemma_mul_nonzero(pv.z, pv.z);
        lemma_mulpow(Scalar::ONE, pv.z2(), (i + 1) as nat);
        lemma_pow_nonzero(pv.z2(), (i + 1) as nat);
        broadcast use group_ring;
        assert(s_mul(Scalar::ONE, s_pow(pv.z2(), (i + 1) as nat)) == s_pow(pv.z2(), (i + 1) as nat));
        lemma_pow_nonzero(pv.y, pv.nm());
        lemma_mul_nonzero(pv.ynm(), pv.y);
        lemma_mul_nonzero(s_neg(pv.e2()), mulpow(Scalar::ONE, pv.z2(), (i + 1) as nat));
        lemma_mul_nonzero(s_mul(s_neg(pv.e2()), mulpow(Scalar::ONE, pv.z2(), (i + 1) as nat)), pv.ynm1());
        lemma_mul_nonzero(w, s_mul(s_mul(s_neg(pv.e2()), mulpow(Scalar::ONE, pv.z2(), (i + 1) as nat)), pv.ynm1()));
        assert(pv.dyn_scalars()[i] == pv.weighted(i));
    } else if i < m + 3 {
        assert(pv.dyn_scalars()[m] == s_mul(w, s_neg(e)));
        assert(pv.dyn_scalars()[m + 1] == s_neg(w));
        assert(pv.dyn_scalars()[m + 2] == s_mul(w, s_neg(pv.e2())));
    } else if i < m + 3 + r {
        let j = i - m - 3;
        lemma_mul_nonzero(pv.es[j], pv.es[j]);
        lemma_mul_nonzero(s_mul(w, s_neg(pv.e2())), pv.csq()[j]);
        assert(pv.dyn_scalars()[i] == s_mul(s_mul(w, s_neg(pv.e2())), pv.csq()[j]));
    } else {
        let j = i - m - 3 - r;
        lemma_inv_nonzero(pv.es[j]);
        lemma_mul_nonzero(s_inv(pv.es[j]), s_inv(pv.es[j]));
        lemma_mul_nonzero(s_mul(w, s_neg(pv.e2())), pv.csqinv()[j]);
        assert(pv.dyn_scalars()[i] == s_mul(s_mul(w, s_neg(pv.e2())), pv.csqinv()[j]));
    }
}
