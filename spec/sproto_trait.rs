// ===================== ScalarProtocol (src/protocols/scalar_protocol.rs): trait declaration with the U6 contracts =====================
// v is the first nonzero draw from the RNG stream that starts in state st0, st1 is the state right after that draw
#[verifier::opaque]
pub open spec fn rnz_drawn<R: CryptoRngCore>(st0: RngSt, v: Scalar, st1: RngSt) -> bool {
    exists|n: nat| #![trigger rng_steps::<R>(st0, n)] {
        &&& v == rng_scalar(rng_steps::<R>(st0, n))
        &&& st1 == rng_steps::<R>(st0, n + 1)
        &&& forall|m: nat| m < n ==> rng_scalar(#[trigger] rng_steps::<R>(st0, m)) == Scalar::ZERO
    }
}
pub trait ScalarProtocol {
    fn random_not_zero<R: CryptoRngCore>(rng: &mut R) -> (res: Scalar)
        ensures
        //@ prop(C13,C08) C13.random_not_zero_nonzero
            res != Scalar::ZERO,
        //@ prop(C13,C08,C14) C13.random_not_zero_provenance
            rnz_drawn::<R>(old(rng).rng_state(), res, final(rng).rng_state());
    fn from_hasher_blake2b(hasher: Blake2bMac512) -> (res: Scalar)
        ensures
        //@ prop(C09,C19) C09.from_hasher_wide_reduce
            res == wide_reduce(hasher.out());
}
