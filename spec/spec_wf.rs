// ===================== "statement built through the validating constructors" =====================
impl BulletproofGens<P> {
    // postcondition of BulletproofGens::new (unit gens)
    pub open spec fn wf(&self) -> bool {
        &&& self.shape_ok()
        &&& precomp_table(*self.precomp).len() == 2 * self.gens_capacity * self.party_capacity
        &&& self.derived_ok()
    }
}
impl RangeStatement<P> {
    // postconditions of RangeParameters::init and RangeStatement::init (unit ctors) + of BulletproofGens::new; nothing about
    // the pub-field PedersenGens (the code itself checks g_base_vec.len() == extension_degree)
    pub open spec fn wf(&self) -> bool {
        &&& self.ctor_ok()
        &&& self.generators.bp_gens.wf()
    }
}
pub open spec fn all_wf(s: Seq<RangeStatement<P>>) -> bool { forall|i: int| 0 <= i < s.len() ==> (#[trigger] s[i]).wf() }
pub proof fn lemma_wf_bounds(s: RangeStatement<P>)
    requires s.wf()
    ensures
        1 <= s.generators.bp_gens.gens_capacity <= 64,
        1 <= s.generators.bp_gens.party_capacity <= 0x1_0000_0000,
        1 <= s.commitments@.len() <= s.generators.bp_gens.party_capacity,
        s.commitments@.len() * s.generators.bp_gens.gens_capacity <= s.generators.bp_gens.party_capacity * s.generators.bp_gens.gens_capacity,
        2 * s.generators.bp_gens.gens_capacity * s.generators.bp_gens.party_capacity <= 0x80_0000_0000,
        s.minimum_value_promises@.len() == s.commitments@.len(), s.commitments_compressed@.len() == s.commitments@.len(),
        precomp_table(*s.generators.bp_gens.precomp).len() == 2 * s.generators.bp_gens.gens_capacity * s.generators.bp_gens.party_capacity,
{
    reveal(RangeStatement::ctor_ok); reveal(RangeParameters::ctor_ok);
    reveal_with_fuel(vstd::arithmetic::power2::is_pow2, 1);
    let n = s.generators.bp_gens.gens_capacity as int; let c = s.generators.bp_gens.party_capacity as int; let m = s.commitments@.len() as int;
    assert(m * n <= c * n) by(nonlinear_arith) requires m <= c, n >= 0;
    assert(2 * n * c <= 2 * 64 * 0x1_0000_0000) by(nonlinear_arith) requires 0 <= n <= 64, 0 <= c <= 0x1_0000_0000;
}
proof fn vx_canary_statement_wf(s: RangeStatement<P>) requires s.wf() ensures false { reveal(RangeStatement::ctor_ok); reveal(RangeParameters::ctor_ok); reveal(BulletproofGens::shape_ok); }
proof fn vx_canary_axioms_v() ensures false { broadcast use group_ring, ax_scalar_bytes_len, ax_le32_len; }
// C12: generator j of party i is the same point whatever capacity was requested (same bit length)
//@ prop(C12) C12.lemma_capacity_independent
pub proof fn lemma_capacity_independent(a: BulletproofGens<P>, b: BulletproofGens<P>, i: int, j: int)
    requires a.wf(), b.wf(), a.gens_capacity == b.gens_capacity, 0 <= i < a.party_capacity, i < b.party_capacity, 0 <= j < a.gens_capacity
    ensures a.g_vec@[i]@[j] == b.g_vec@[i]@[j], a.h_vec@[i]@[j] == b.h_vec@[i]@[j]
{
}
// C12 / C03: two parameter sets agree on every vector generator both of them contain (party-major order)
pub open spec fn gens_prefix_agree(a: RangeParameters<P>, b: RangeParameters<P>) -> bool {
    let ga = AggregatedGensIter::walk(&a.bp_gens.g_vec, a.bp_gens.gens_capacity, a.bp_gens.party_capacity, 0, 0);
    let gb = AggregatedGensIter::walk(&b.bp_gens.g_vec, b.bp_gens.gens_capacity, b.bp_gens.party_capacity, 0, 0);
    let ha = AggregatedGensIter::walk(&a.bp_gens.h_vec, a.bp_gens.gens_capacity, a.bp_gens.party_capacity, 0, 0);
    let hb = AggregatedGensIter::walk(&b.bp_gens.h_vec, b.bp_gens.gens_capacity, b.bp_gens.party_capacity, 0, 0);
    &&& forall|q: int| 0 <= q < ga.len() && q < gb.len() ==> *(#[trigger] ga[q]) == *gb[q]
    &&& forall|q: int| 0 <= q < ha.len() && q < hb.len() ==> *(#[trigger] ha[q]) == *hb[q]
}
// C03 (the "refused only if" direction): what a batch must satisfy for the consistency check to have no reason to refuse it
pub open spec fn batch_consistent(st: Seq<RangeStatement<P>>, pr: Seq<RangeProof<P>>) -> bool {
    &&& st.len() >= 1 && pr.len() == st.len()
    &&& st[0].generators.pc_gens.g_base_vec@.len() == st[0].generators.pc_gens.extension_degree as usize
    &&& forall|i: int| 0 <= i < st.len() ==> {
            &&& (#[trigger] pr[i]).d1@.len() == st[0].generators.pc_gens.extension_degree as usize
            &&& st[i].generators.pc_gens.extension_degree == st[0].generators.pc_gens.extension_degree
            &&& st[i].generators.bp_gens.gens_capacity == st[0].generators.bp_gens.gens_capacity
            &&& st[i].generators.pc_gens.g_base_vec@ == st[0].generators.pc_gens.g_base_vec@
            &&& st[i].generators.pc_gens.h_base == st[0].generators.pc_gens.h_base
        }
    &&& forall|i: int, q: int| 0 <= i < st.len() && 0 <= q < st[i].minimum_value_promises@.len() ==>
            #[trigger] promise_ok(st[i].minimum_value_promises@[q], st[0].generators.bp_gens.gens_capacity)
    &&& forall|i: int, j: int| 0 <= i < st.len() && 0 <= j < st.len() ==> gens_prefix_agree((#[trigger] st[i]).generators, (#[trigger] st[j]).generators)
}
