// ===================== specification-side facts about the extracted repo types =====================
impl vstd::std_specs::convert::TryFromSpecImpl<usize> for ExtensionDegree {
    open spec fn obeys_try_from_spec() -> bool { false }
    open spec fn try_from_spec(value: usize) -> Result<Self, ProofError> { arbitrary() }
}
impl vstd::std_specs::convert::TryFromSpecImpl<u8> for ExtensionDegree {
    open spec fn obeys_try_from_spec() -> bool { false }
    open spec fn try_from_spec(value: u8) -> Result<Self, ProofError> { arbitrary() }
}
pub open spec fn is_pow2u(x: usize) -> bool { vstd::arithmetic::power2::is_pow2(x as int) }

// "built through the validating constructors": exactly the postconditions of BulletproofGens::new,
// RangeParameters::init and RangeStatement::init (proved in units gens / ctors), nothing more.
impl BulletproofGens<P> {
    #[verifier::opaque]
    pub open spec fn shape_ok(&self) -> bool {
        &&& self.g_vec@.len() == self.party_capacity
        &&& self.h_vec@.len() == self.party_capacity
        &&& forall|i: int| 0 <= i < self.party_capacity ==> (#[trigger] self.g_vec@[i])@.len() == self.gens_capacity
        &&& forall|i: int| 0 <= i < self.party_capacity ==> (#[trigger] self.h_vec@[i])@.len() == self.gens_capacity
    }
}
impl RangeParameters<P> {
    pub open spec fn spec_bit_length(&self) -> usize { self.bp_gens.gens_capacity }
    pub open spec fn spec_maxagg(&self) -> usize { self.bp_gens.party_capacity }
    pub open spec fn spec_ext(&self) -> ExtensionDegree { self.pc_gens.extension_degree }
    #[verifier::opaque]
    pub open spec fn ctor_ok(&self) -> bool {
        &&& is_pow2u(self.bp_gens.gens_capacity)
        &&& self.bp_gens.gens_capacity <= 64
        &&& is_pow2u(self.bp_gens.party_capacity)
        &&& self.bp_gens.party_capacity <= 0x1_0000_0000
    }
}
impl RangeStatement<P> {
    #[verifier::opaque]
    pub open spec fn ctor_ok(&self) -> bool {
        &&& self.generators.ctor_ok()
        &&& is_pow2u(self.commitments@.len() as usize)
        &&& self.commitments@.len() <= self.generators.bp_gens.party_capacity
        &&& self.minimum_value_promises@.len() == self.commitments@.len()
        &&& self.commitments_compressed@.len() == self.commitments@.len()
        &&& (self.seed_nonce is Some ==> self.commitments@.len() <= 1)
    }
}
