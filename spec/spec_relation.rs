// ===================== the verification equation, term by term (U14) =====================
// T1 = published closed forms where a lemma connects them; T2 = reference recurrences mirroring the order of computation.
pub open spec fn s_two() -> Scalar { s_of_nat(2) }
// a * b^q computed by repeated right-multiplication (the running products y_inv_i, y_nm_i, z_even_powers)
pub open spec fn mulpow(a: Scalar, b: Scalar, q: nat) -> Scalar
    decreases q
{ if q == 0 { a } else { s_mul(mulpow(a, b, (q - 1) as nat), b) } }
// T1: s_i = s_0 * prod_{j : bit (r-1-j) of i is set} e_j^2     (with s_0 = prod_j e_j^-1 this is prod_j e_j^{+-1})
pub open spec fn s_prod(csq: Seq<Scalar>, i: nat) -> Scalar
    decreases csq.len()
{
    if csq.len() == 0 { Scalar::ONE } else {
        s_mul(s_prod(csq.drop_last(), i / 2), if i % 2 == 1 { csq.last() } else { Scalar::ONE })
    }
}
pub open spec fn s_t1(s0: Scalar, csq: Seq<Scalar>, i: nat) -> Scalar { s_mul(s0, s_prod(csq, i)) }
// the verifier's recurrence is the product form
pub proof fn lemma_s_prod_recurrence(csq: Seq<Scalar>, i: nat, k: nat)
    requires k < csq.len(), vstd::arithmetic::power2::pow2(k) <= i < 2 * vstd::arithmetic::power2::pow2(k),
    ensures s_prod(csq, i) == s_mul(s_prod(csq, (i - vstd::arithmetic::power2::pow2(k)) as nat), csq[csq.len() - 1 - k]),
    decreases csq.len()
{
    broadcast use group_ring;
    let r = csq.len(); let dl = csq.drop_last(); let last = csq.last();
    vstd::arithmetic::power2::lemma2_to64();
    if k == 0 {
        assert(i == 1);
        assert(s_prod(csq, 1) == s_mul(s_prod(dl, 0), last));
        assert(s_prod(csq, 0) == s_mul(s_prod(dl, 0), Scalar::ONE));
    } else {
        vstd::arithmetic::power2::lemma_pow2_unfold(k);
        let pk = vstd::arithmetic::power2::pow2(k); let pk1 = vstd::arithmetic::power2::pow2((k - 1) as nat);
        let i2 = i / 2;
        assert(pk1 <= i2 < 2 * pk1);
        let i_minus = (i - pk) as nat;
        assert(i_minus / 2 == i2 - pk1);
        assert(i_minus % 2 == i % 2);
        lemma_s_prod_recurrence(dl, i2, (k - 1) as nat);
        assert(dl[dl.len() - 1 - (k - 1)] == csq[r - 1 - k]);
        let f = if i % 2 == 1 { last } else { Scalar::ONE };
        let a = s_prod(dl, i2); let b = s_prod(dl, (i2 - pk1) as nat); let q = csq[r - 1 - k];
        assert(s_mul(s_mul(b, q), f) == s_mul(s_mul(b, f), q));
    }
}
pub proof fn lemma_s_step(s0: Scalar, csq: Seq<Scalar>, i: nat, k: nat, prev: Scalar)
    requires k < csq.len(), vstd::arithmetic::power2::pow2(k) <= i < 2 * vstd::arithmetic::power2::pow2(k),
        prev == s_t1(s0, csq, (i - vstd::arithmetic::power2::pow2(k)) as nat),
    ensures s_mul(prev, csq[csq.len() - 1 - k]) == s_t1(s0, csq, i),
{
    broadcast use group_ring;
    lemma_s_prod_recurrence(csq, i, k);
}
pub proof fn lemma_s_zero(s0: Scalar, csq: Seq<Scalar>)
    ensures s_t1(s0, csq, 0) == s0
    decreases csq.len()
{
    broadcast use group_ring;
    lemma_s_prod_zero(csq);
}
pub proof fn lemma_s_prod_zero(csq: Seq<Scalar>)
    ensures s_prod(csq, 0) == Scalar::ONE
    decreases csq.len()
{
    broadcast use group_ring;
    if csq.len() > 0 { lemma_s_prod_zero(csq.drop_last()); }
}
// T2: the doubling trick for sum_{j=1..m} z^(2j), t iterations
pub open spec fn dsum_pair(zsq: Scalar, t: nat) -> (Scalar, Scalar)
    decreases t
{
    if t == 0 { (zsq, zsq) } else {
        let p = dsum_pair(zsq, (t - 1) as nat);
        (s_add(p.0, s_mul(p.0, p.1)), s_mul(p.1, p.1))
    }
}
// per-proof values entering the equation
pub struct PV {
    pub w: Scalar, pub y: Scalar, pub z: Scalar, pub e: Scalar, pub es: Seq<Scalar>,
    pub r1: Scalar, pub s1: Scalar, pub d1: Seq<Scalar>,
    pub n: nat, pub m: nat, pub t: nat, pub promises: Seq<Option<u64>>,
    pub commitments: Seq<P>, pub a: P, pub a1: P, pub b: P, pub li: Seq<P>, pub ri: Seq<P>,
}
impl PV {
    pub open spec fn nm(self) -> nat { self.m * self.n }
    pub open spec fn z2(self) -> Scalar { sq(self.z) }
    pub open spec fn e2(self) -> Scalar { sq(self.e) }
    pub open spec fn csq(self) -> Seq<Scalar> { csq_of(self.es) }
    pub open spec fn csqinv(self) -> Seq<Scalar> { csqinv_of(self.es) }
    pub open spec fn yinv(self) -> Scalar { s_inv(self.y) }
    pub open spec fn y1inv(self) -> Scalar { s_inv(s_sub(self.y, Scalar::ONE)) }
    // s_0 as computed: batch_invert's product of inverses of (e_1..e_r, y, y-1), times y, times (y-1)
    pub open spec fn s0(self) -> Scalar {
        s_mul(s_mul(batch_inv_prod(self.es.push(self.y).push(s_sub(self.y, Scalar::ONE))), self.y), s_sub(self.y, Scalar::ONE))
    }
    pub open spec fn ynm(self) -> Scalar { s_pow(self.y, self.nm()) }
    pub open spec fn ynm1(self) -> Scalar { s_mul(self.ynm(), self.y) }
    pub open spec fn ysum(self) -> Scalar { s_mul(s_mul(self.y, s_sub(self.ynm(), Scalar::ONE)), self.y1inv()) }
    pub open spec fn two_n_1(self) -> Scalar { s_sub(s_pow(s_two(), self.n), Scalar::ONE) }
    pub open spec fn dsum(self, t: nat) -> Scalar { s_mul(dsum_pair(self.z2(), t).0, self.two_n_1()) }
    pub open spec fn d(self, q: int) -> Scalar { d_t1(self.z2(), s_two(), (q / (self.n as int)) as nat, (q % (self.n as int)) as nat) }
    pub open spec fn s(self, q: int) -> Scalar { s_t1(self.s0(), self.csq(), q as nat) }
    // contribution of this proof to the scalar of G_q / H_q (q < n*m)
    pub open spec fn gi_term(self, q: int) -> Scalar {
        s_mul(self.w, s_add(s_mul(s_mul(s_mul(self.r1, self.e), mulpow(Scalar::ONE, self.yinv(), q as nat)), self.s(q)), s_mul(self.e2(), self.z)))
    }
    pub open spec fn hi_term(self, q: int) -> Scalar {
        s_mul(self.w, s_sub(s_mul(s_mul(self.s1, self.e), self.s(self.nm() - 1 - q)),
            s_mul(self.e2(), s_add(s_mul(self.d(q), mulpow(self.ynm(), self.yinv(), q as nat)), self.z))))
    }
    // scalar of commitment j:  w * (-e^2 * z^(2(j+1)) * y^(nm+1))
    pub open spec fn weighted(self, j: int) -> Scalar {
        s_mul(self.w, s_mul(s_mul(s_neg(self.e2()), mulpow(Scalar::ONE, self.z2(), (j + 1) as nat)), self.ynm1()))
    }
    // H scalar: promises re-added on the value generator (absent = no term), then the constant term
    pub open spec fn h_prom(self, prev: Scalar, j: nat) -> Scalar
        decreases j
    {
        if j == 0 { prev } else {
            let p = self.h_prom(prev, (j - 1) as nat);
            match self.promises[j - 1] { Some(v) => s_sub(p, s_mul(self.weighted(j - 1), s_of_nat(v as nat))), None => p }
        }
    }
    pub open spec fn h_after(self, prev: Scalar) -> Scalar {
        s_add(self.h_prom(prev, self.m),
            s_mul(self.w, s_add(s_mul(s_mul(self.r1, self.y), self.s1),
                s_mul(self.e2(), s_add(s_mul(s_mul(self.ynm1(), self.z), self.dsum(self.t)), s_mul(s_sub(self.z2(), self.z), self.ysum()))))))
    }
    pub open spec fn dyn_scalars(self) -> Seq<Scalar> {
        Seq::new(self.m, |j: int| self.weighted(j))
            + seq![s_mul(self.w, s_neg(self.e)), s_neg(self.w), s_mul(self.w, s_neg(self.e2()))]
            + Seq::new(self.es.len(), |j: int| s_mul(s_mul(self.w, s_neg(self.e2())), self.csq()[j]))
            + Seq::new(self.es.len(), |j: int| s_mul(s_mul(self.w, s_neg(self.e2())), self.csqinv()[j]))
    }
    pub open spec fn dyn_points(self) -> Seq<P> {
        self.commitments + seq![self.a1, self.b, self.a] + self.li + self.ri
    }
}
pub open spec fn decompress_seq(c: Seq<CP>) -> Seq<P> { Seq::new(c.len(), |q: int| cp_decompress(c[q])->Some_0) }
// the per-proof values as a function of the inputs, the challenges and the batch weight
pub open spec fn pv_of(w: Scalar, ch: (Scalar, Scalar, Seq<Scalar>, Scalar), st: RangeStatement<P>, pr: RangeProof<P>, n: usize) -> PV {
    PV { w: w, y: ch.0, z: ch.1, e: ch.3, es: ch.2, r1: pr.r1, s1: pr.s1, d1: pr.d1@, n: n as nat, m: st.commitments@.len(),
         t: spec_ilog2(st.commitments@.len() as usize) as nat, promises: st.minimum_value_promises@, commitments: st.commitments@,
         a: cp_decompress(pr.a)->Some_0, a1: cp_decompress(pr.a1)->Some_0, b: cp_decompress(pr.b)->Some_0,
         li: decompress_seq(pr.li@), ri: decompress_seq(pr.ri@) }
}
// accumulation over the proofs of a batch, in order
pub open spec fn gi_acc(pvs: Seq<PV>, q: int) -> Scalar
    decreases pvs.len()
{ if pvs.len() == 0 { Scalar::ZERO } else { let prev = gi_acc(pvs.drop_last(), q); if q < pvs.last().nm() { s_add(prev, pvs.last().gi_term(q)) } else { prev } } }
pub open spec fn hi_acc(pvs: Seq<PV>, q: int) -> Scalar
    decreases pvs.len()
{ if pvs.len() == 0 { Scalar::ZERO } else { let prev = hi_acc(pvs.drop_last(), q); if q < pvs.last().nm() { s_add(prev, pvs.last().hi_term(q)) } else { prev } } }
pub open spec fn g_acc(pvs: Seq<PV>, k: int) -> Scalar
    decreases pvs.len()
{ if pvs.len() == 0 { Scalar::ZERO } else { s_add(g_acc(pvs.drop_last(), k), s_mul(pvs.last().w, pvs.last().d1[k])) } }
pub open spec fn h_acc(pvs: Seq<PV>) -> Scalar
    decreases pvs.len()
{ if pvs.len() == 0 { Scalar::ZERO } else { pvs.last().h_after(h_acc(pvs.drop_last())) } }
pub open spec fn dyn_s_acc(pvs: Seq<PV>) -> Seq<Scalar>
    decreases pvs.len()
{ if pvs.len() == 0 { Seq::empty() } else { dyn_s_acc(pvs.drop_last()) + pvs.last().dyn_scalars() } }
pub open spec fn dyn_p_acc(pvs: Seq<PV>) -> Seq<P>
    decreases pvs.len()
{ if pvs.len() == 0 { Seq::empty() } else { dyn_p_acc(pvs.drop_last()) + pvs.last().dyn_points() } }
// the group element the verifier compares with the identity
pub open spec fn batch_residual(pvs: Seq<PV>, max_mn: nat, padding: nat, ext: nat, table: Seq<P>, g_base_vec: Seq<P>, h_base: P) -> P {
    let gi = Seq::new(max_mn, |q: int| gi_acc(pvs, q));
    let hi = Seq::new(max_mn, |q: int| hi_acc(pvs, q));
    let stat = interleave_seq(gi, hi) + Seq::new(padding, |i: int| Scalar::ZERO);
    let dyn_s = dyn_s_acc(pvs) + Seq::new(ext, |k: int| g_acc(pvs, k)) + seq![h_acc(pvs)];
    let dyn_p = dyn_p_acc(pvs) + g_base_vec + seq![h_base];
    p_add(msm(stat, table), msm(dyn_s, dyn_p))
}
pub proof fn lemma_deref_interleave(a: Seq<&Scalar>, b: Seq<&Scalar>)
    ensures deref_s(interleave_seq(a, b)) =~= interleave_seq(deref_s(a), deref_s(b))
    decreases a.len() + b.len()
{
    if a.len() == 0 { } else {
        lemma_deref_interleave(b, a.drop_first());
        assert(deref_s(a).drop_first() =~= deref_s(a.drop_first()));
        assert(deref_s(seq![a[0]] + interleave_seq(b, a.drop_first())) =~= seq![*a[0]] + deref_s(interleave_seq(b, a.drop_first())));
    }
}
pub open spec fn gen_padding(st: RangeStatement<P>) -> nat {
    (2 * st.generators.bp_gens.gens_capacity * st.generators.bp_gens.party_capacity - 2 * st.generators.bp_gens.gens_capacity * st.commitments@.len()) as nat
}
pub open spec fn batch_pvs(ws: Seq<Scalar>, trs: Seq<Transcript>, statements: Seq<RangeStatement<P>>, proofs: Seq<RangeProof<P>>) -> Seq<PV> {
    Seq::new(proofs.len(), |p: int| pv_of(ws[p], member_challenges(trs[p].log(), statements, proofs, p), statements[p], proofs[p], statements[0].generators.bp_gens.gens_capacity))
}
pub open spec fn bcs_of(bc: Seq<(Scalar, Scalar, Vec<Scalar>, Scalar)>) -> Seq<(Scalar, Scalar, Seq<Scalar>, Scalar)> {
    Seq::new(bc.len(), |p: int| (bc[p].0, bc[p].1, bc[p].2@, bc[p].3))
}
// state of the verifier's accumulators after the proofs in pvs (hidden from the inner loops; revealed where it is updated and used)
#[verifier::opaque]
pub open spec fn acc_ok(pvs: Seq<PV>, bcs: Seq<(Scalar, Scalar, Seq<Scalar>, Scalar)>, statements: Seq<RangeStatement<P>>, proofs: Seq<RangeProof<P>>, n: usize,
    max_mn: nat, ext: nat, gi: Seq<Scalar>, hi: Seq<Scalar>, g: Seq<Scalar>, h: Scalar, ds: Seq<Scalar>, dp: Seq<P>) -> bool
{
    &&& forall|p: int| 0 <= p < pvs.len() ==> #[trigger] pvs[p] == pv_of(pvs[p].w, bcs[p], statements[p], proofs[p], n) && pvs[p].w != Scalar::ZERO
    &&& gi.len() == max_mn && hi.len() == max_mn && g.len() == ext
    &&& forall|q: int| 0 <= q < max_mn ==> #[trigger] gi[q] == gi_acc(pvs, q)
    &&& forall|q: int| 0 <= q < max_mn ==> #[trigger] hi[q] == hi_acc(pvs, q)
    &&& forall|k: int| 0 <= k < ext ==> #[trigger] g[k] == g_acc(pvs, k)
    &&& h == h_acc(pvs)
    &&& ds == dyn_s_acc(pvs)
    &&& dp == dyn_p_acc(pvs)
}
