// ===================== specification of BulletproofGens::new (C11, C12) =====================
pub open spec fn gens_derived(g_vec: Seq<Vec<P>>, c: u8, n: usize, parties: nat) -> bool {
    &&& g_vec.len() == parties
    &&& forall|i: int| 0 <= i < parties ==> (#[trigger] g_vec[i])@.len() == n
    &&& forall|i: int, j: int| 0 <= i < parties && 0 <= j < n ==> #[trigger] g_vec[i]@[j] == chain_point(gens_label(c, i as u32), j as nat)
}
impl BulletproofGens<P> {
    pub open spec fn derived_ok(&self) -> bool {
        &&& gens_derived(self.g_vec@, b'G', self.gens_capacity, self.party_capacity as nat)
        &&& gens_derived(self.h_vec@, b'H', self.gens_capacity, self.party_capacity as nat)
        &&& precomp_table(*self.precomp) == interleave_seq(deref_p(flat_refs::<P>(self.g_vec@)), deref_p(flat_refs::<P>(self.h_vec@)))
    }
}
pub proof fn lemma_deref_interleave_p(a: Seq<&P>, b: Seq<&P>)
    ensures deref_p(interleave_seq(a, b)) =~= interleave_seq(deref_p(a), deref_p(b))
    decreases a.len() + b.len()
{
    if a.len() == 0 { } else {
        lemma_deref_interleave_p(b, a.drop_first());
        assert(deref_p(a).drop_first() =~= deref_p(a.drop_first()));
        assert(deref_p(seq![a[0]] + interleave_seq(b, a.drop_first())) =~= seq![*a[0]] + deref_p(interleave_seq(b, a.drop_first())));
    }
}
pub proof fn lemma_flat_len<T>(v: Seq<Vec<T>>, n: nat)
    requires forall|i: int| 0 <= i < v.len() ==> (#[trigger] v[i])@.len() == n
    ensures flat_refs::<T>(v).len() == v.len() * n
    decreases v.len()
{
    if v.len() > 0 {
        lemma_flat_len::<T>(v.drop_last(), n);
        assert(v.len() * n == (v.len() - 1) * n + n) by(nonlinear_arith);
    }
}
