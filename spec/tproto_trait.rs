// ===================== TranscriptProtocol (src/protocols/transcript_protocol.rs): trait declaration with the U4 contracts.
// Verus does not allow requires/ensures on trait impls, so the contract text sits on the declaration; the five method
// bodies of `impl TranscriptProtocol for Transcript` are extracted from /repo and verified against it in unit `transcripts`.
pub trait TranscriptProtocol {
    spec fn tlog(&self) -> Seq<TEvent>;
    fn append_domain_separator(&mut self)
        ensures
        //@ prop(C04,C19) C04.tp_domain_separator
            final(self).tlog() == old(self).tlog().push(TEvent::Append(b"dom-sep"@, b"Bulletproofs+ Range Proof"@));

    fn append_point<P: FixedBytesRepr>(&mut self, label: &'static [u8], point: &P)
        ensures
        //@ prop(C04,C19) C04.tp_append_point
            final(self).tlog() == old(self).tlog().push(TEvent::Append(label@, point.bytes_view()));

    fn validate_and_append_point<P: FixedBytesRepr + IsIdentity>(&mut self, label: &'static [u8], point: &P) -> (res: Result<(), ProofError>)
        ensures
        //@ prop(C04,C02,C19) C04.tp_validate_point
            res is Ok <==> !point.is_identity_spec(),
            res is Ok ==> final(self).tlog() == old(self).tlog().push(TEvent::Append(label@, point.bytes_view())),
            res is Err ==> final(self).tlog() == old(self).tlog(),
        //@ prop(C06,C01,C05) C06.tp_validate_point_error_kind
            res is Err ==> res->Err_0 is VerificationFailed;

    fn append_scalar(&mut self, label: &'static [u8], scalar: &Scalar)
        ensures
        //@ prop(C04,C08,C19) C04.tp_append_scalar
            final(self).tlog() == old(self).tlog().push(TEvent::Append(label@, scalar_bytes(*scalar)));

    fn challenge_scalar(&mut self, label: &'static [u8]) -> (res: Result<Scalar, ProofError>)
        ensures
        //@ prop(C04,C02,C19) C04.tp_challenge_scalar
            final(self).tlog() == old(self).tlog().push(TEvent::Challenge(label@, 64)),
            res is Ok ==> res->Ok_0 == wide_reduce(strobe_prf(old(self).tlog(), label@, 64)) && res->Ok_0 != Scalar::ZERO,
            res is Err ==> wide_reduce(strobe_prf(old(self).tlog(), label@, 64)) == Scalar::ZERO,
        //@ prop(C06,C01,C05) C06.tp_challenge_error_kind
            res is Err ==> res->Err_0 is VerificationFailed;
}
