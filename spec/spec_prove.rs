// ===================== prover-side specification functions =====================
impl PedersenGens<P> {
    // a Pedersen generator set is consistent when it carries exactly extension_degree blinding generators
    // (no constructor establishes this for the pub-field struct; verify/prove check it at run time)
    pub open spec fn wf(&self) -> bool {
        self.g_base_vec@.len() == self.extension_degree as usize
    }
}
// extended Pedersen commitment  v*H + sum_k r_k*G_k
pub open spec fn commit_spec(pc: PedersenGens<P>, v: Scalar, r: Seq<Scalar>) -> P {
    msm(seq![v] + r, seq![pc.h_base] + pc.g_base_vec@.take(r.len() as int))
}
impl RangeWitness {
    // postcondition of RangeWitness::init
    pub open spec fn wf(&self) -> bool {
        &&& self.openings@.len() >= 1
        &&& forall|j: int| 0 <= j < self.openings@.len() ==> (#[trigger] self.openings@[j]).r@.len() == self.extension_degree as usize
    }
}
pub open spec fn alpha_off(a0: Scalar, rs: Seq<Seq<Scalar>>, zsq: Scalar, yp: Scalar, k: int, cnt: nat) -> Scalar
    decreases cnt
{
    if cnt == 0 { a0 } else { s_add(alpha_off(a0, rs, zsq, yp, k, (cnt - 1) as nat), s_mul(s_mul(s_pow(zsq, cnt), rs[cnt - 1][k]), yp)) }
}
pub open spec fn alpha_rounds(a: Scalar, dl: Seq<Seq<Scalar>>, dr: Seq<Seq<Scalar>>, es: Seq<Scalar>, k: int, t: nat) -> Scalar
    decreases t
{
    if t == 0 { a } else {
        s_add(alpha_rounds(a, dl, dr, es, k, (t - 1) as nat),
              s_add(s_mul(dl[t - 1][k], s_mul(es[t - 1], es[t - 1])), s_mul(dr[t - 1][k], s_mul(s_inv(es[t - 1]), s_inv(es[t - 1])))))
    }
}
pub open spec fn openings_r(w: RangeWitness) -> Seq<Seq<Scalar>> { Seq::new(w.openings@.len(), |j: int| w.openings@[j].r@) }
// alpha_rounds only reads the first t entries of the logs
pub proof fn lemma_alpha_rounds_prefix(a: Scalar, dl: Seq<Seq<Scalar>>, dr: Seq<Seq<Scalar>>, es: Seq<Scalar>, k: int, t: nat, n: nat)
    requires t <= n <= dl.len(), n <= dr.len(), n <= es.len()
    ensures alpha_rounds(a, dl, dr, es, k, t) == alpha_rounds(a, dl.take(n as int), dr.take(n as int), es.take(n as int), k, t)
    decreases t
{
    if t > 0 { lemma_alpha_rounds_prefix(a, dl, dr, es, k, (t - 1) as nat, n); }
}
// C06: the witness is valid for the statement
pub open spec fn valid_witness(st: RangeStatement<P>, w: RangeWitness) -> bool {
    let n = st.generators.bp_gens.gens_capacity;
    &&& w.openings@.len() == st.commitments@.len()
    &&& w.extension_degree == st.generators.pc_gens.extension_degree
    &&& forall|j: int| 0 <= j < w.openings@.len() ==> promise_fits((#[trigger] w.openings@[j]).v, n)
    &&& forall|j: int| 0 <= j < w.openings@.len() ==> commit_spec(st.generators.pc_gens, s_of_nat((#[trigger] w.openings@[j]).v as nat), w.openings@[j].r@) == st.commitments@[j]
    &&& forall|j: int| 0 <= j < w.openings@.len() ==> promise_val(#[trigger] st.minimum_value_promises@[j]) <= w.openings@[j].v
}
