// ===================== prover-side specification functions =====================
impl PedersenGens<P> {
    // a Pedersen generator set is consistent when it carries exactly extension_degree blinding generators
    // (no constructor establishes this for the pub-field struct; verify/prove check it at run time)
    pub open spec fn wf(&self) -> bool {
        self.g_base_vec@.len() == self.extension_degree as usize
    }
}
// extended Pedersen commitment  v*H + sum_k r_k*G_k
pub open spec fn commit_spec(pc: PedersenGens<P>, v: Scalar, r: Seq<Scalar>) -> P {
    msm(seq![v] + r, seq![pc.h_base] + pc.g_base_vec@.take(r.len() as int))
}
impl RangeWitness {
    // postcondition of RangeWitness::init
    pub open spec fn wf(&self) -> bool {
        &&& self.openings@.len() >= 1
        &&& forall|j: int| 0 <= j < self.openings@.len() ==> (#[trigger] self.openings@[j]).r@.len() == self.extension_degree as usize
    }
}
// vacuity guards behind the preconditions of prove_with_rng / commit / verify (each must FAIL)
proof fn vx_canary_req_pedersen_wf(pc: PedersenGens<P>) requires pc.wf() ensures false {}
proof fn vx_canary_req_witness_wf(w: RangeWitness) requires w.wf() ensures false {}
proof fn vx_canary_req_prove(s: RangeStatement<P>, w: RangeWitness) requires s.wf(), w.wf() ensures false {}
proof fn vx_canary_req_verify(s: Seq<RangeStatement<P>>, t: Seq<Transcript>) requires all_wf(s), t.len() == s.len(), s.len() >= 1 ensures false {}
pub open spec fn alpha_off(a0: Scalar, rs: Seq<Seq<Scalar>>, zsq: Scalar, yp: Scalar, k: int, cnt: nat) -> Scalar
    decreases cnt
{
    if cnt == 0 { a0 } else { s_add(alpha_off(a0, rs, zsq, yp, k, (cnt - 1) as nat), s_mul(s_mul(s_pow(zsq, cnt), rs[cnt - 1][k]), yp)) }
}
pub open spec fn alpha_rounds(a: Scalar, dl: Seq<Seq<Scalar>>, dr: Seq<Seq<Scalar>>, es: Seq<Scalar>, k: int, t: nat) -> Scalar
    decreases t
{
    if t == 0 { a } else {
        s_add(alpha_rounds(a, dl, dr, es, k, (t - 1) as nat),
              s_add(s_mul(dl[t - 1][k], s_mul(es[t - 1], es[t - 1])), s_mul(dr[t - 1][k], s_mul(s_inv(es[t - 1]), s_inv(es[t - 1])))))
    }
}
pub open spec fn openings_r(w: RangeWitness) -> Seq<Seq<Scalar>> { Seq::new(w.openings@.len(), |j: int| w.openings@[j].r@) }
// alpha_rounds only reads the first t entries of the logs
pub proof fn lemma_alpha_rounds_prefix(a: Scalar, dl: Seq<Seq<Scalar>>, dr: Seq<Seq<Scalar>>, es: Seq<Scalar>, k: int, t: nat, n: nat)
    requires t <= n <= dl.len(), n <= dr.len(), n <= es.len()
    ensures alpha_rounds(a, dl, dr, es, k, t) == alpha_rounds(a, dl.take(n as int), dr.take(n as int), es.take(n as int), k, t)
    decreases t
{
    if t > 0 { lemma_alpha_rounds_prefix(a, dl, dr, es, k, (t - 1) as nat, n); }
}
// C06: the witness is valid for the statement
pub open spec fn valid_witness(st: RangeStatement<P>, w: RangeWitness) -> bool {
    let n = st.generators.bp_gens.gens_capacity;
    &&& w.openings@.len() == st.commitments@.len()
    &&& w.extension_degree == st.generators.pc_gens.extension_degree
    &&& forall|j: int| 0 <= j < w.openings@.len() ==> promise_fits((#[trigger] w.openings@[j]).v, n)
    &&& forall|j: int| 0 <= j < w.openings@.len() ==> commit_spec(st.generators.pc_gens, s_of_nat((#[trigger] w.openings@[j]).v as nat), w.openings@[j].r@) == st.commitments@[j]
    &&& forall|j: int| 0 <= j < w.openings@.len() ==> promise_val(#[trigger] st.minimum_value_promises@[j]) <= w.openings@[j].v
}
// C09, prover side (single commitment, seed present): every component of d1 as a function of the seed, the blinding factor and
// the challenges  -  d1_k = eta_k + d_k*e + (alpha_k + z^2*r_k*y^(n+1) + sum_t (dL_tk*e_t^2 + dR_tk*e_t^-2)) * e^2
pub open spec fn seeded_dl(seed: Scalar, rounds: nat, ext: nat) -> Seq<Seq<Scalar>> {
    Seq::new(rounds, |t: int| Seq::new(ext, |k: int| nonce_val(seed, "dL".spec_bytes(), Some(t as usize), Some(k as usize))))
}
pub open spec fn seeded_dr(seed: Scalar, rounds: nat, ext: nat) -> Seq<Seq<Scalar>> {
    Seq::new(rounds, |t: int| Seq::new(ext, |k: int| nonce_val(seed, "dR".spec_bytes(), Some(t as usize), Some(k as usize))))
}
pub open spec fn d1_spec(seed: Scalar, rs: Seq<Seq<Scalar>>, ch: (Scalar, Scalar, Seq<Scalar>, Scalar), nm: nat, m: nat, ext: nat, k: int) -> Scalar {
    let (y, z, es, e) = ch;
    let a0 = nonce_val(seed, "alpha".spec_bytes(), None, Some(k as usize));
    let a1 = alpha_off(a0, rs, sq(z), s_pow(y, nm + 1), k, m);
    let a2 = alpha_rounds(a1, seeded_dl(seed, es.len(), ext), seeded_dr(seed, es.len(), ext), es, k, es.len());
    s_add(s_add(nonce_val(seed, "eta".spec_bytes(), None, Some(k as usize)), s_mul(nonce_val(seed, "d".spec_bytes(), None, Some(k as usize)), e)), s_mul(a2, sq(e)))
}
pub open spec fn prover_d1_ok(st: RangeStatement<P>, w: RangeWitness, pr: RangeProof<P>, ch: (Scalar, Scalar, Seq<Scalar>, Scalar)) -> bool {
    let ext = st.generators.pc_gens.extension_degree as nat;
    let m = st.commitments@.len();
    let nm = m * st.generators.bp_gens.gens_capacity as nat;
    &&& ch.0 != Scalar::ZERO && ch.1 != Scalar::ZERO && ch.3 != Scalar::ZERO
    &&& forall|t: int| 0 <= t < ch.2.len() ==> #[trigger] ch.2[t] != Scalar::ZERO
    &&& ch.2.len() == pr.li@.len()
    &&& (st.seed_nonce is Some ==> forall|k: int| 0 <= k < ext ==> #[trigger] pr.d1@[k] == d1_spec(st.seed_nonce->Some_0, openings_r(w), ch, nm, m, ext, k))
}
pub open spec fn compress_seq(v: Seq<P>) -> Seq<CP> { Seq::new(v.len(), |q: int| p_compress(v[q])) }
// the prover's transcript after `round` folding rounds: log and round challenges are the specified functions of the L/R messages so far
#[verifier::opaque]
pub open spec fn prover_tr_ok(l2: Seq<TEvent>, li: Seq<P>, ri: Seq<P>, e_log: Seq<Scalar>, tlog: Seq<TEvent>, round: nat) -> bool {
    &&& li.len() == round && ri.len() == round && e_log.len() == round
    &&& tlog == log_rounds(l2, compress_seq(li), compress_seq(ri), round)
    &&& forall|t: int| 0 <= t < round ==> #[trigger] e_log[t] == round_chal(l2, compress_seq(li), compress_seq(ri), t as nat) && e_log[t] != Scalar::ZERO
}
// alpha_rounds reads only column k of the first t rows of the nonce logs
pub proof fn lemma_alpha_rounds_ext(a: Scalar, dl1: Seq<Seq<Scalar>>, dr1: Seq<Seq<Scalar>>, dl2: Seq<Seq<Scalar>>, dr2: Seq<Seq<Scalar>>, es: Seq<Scalar>, k: int, t: nat)
    requires forall|q: int| 0 <= q < t ==> #[trigger] dl1[q][k] == dl2[q][k] && dr1[q][k] == dr2[q][k]
    ensures alpha_rounds(a, dl1, dr1, es, k, t) == alpha_rounds(a, dl2, dr2, es, k, t)
    decreases t
{
    if t > 0 { lemma_alpha_rounds_ext(a, dl1, dr1, dl2, dr2, es, k, (t - 1) as nat); }
}
