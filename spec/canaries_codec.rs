proof fn vx_canary_axioms_c() ensures false { broadcast use group_ring, ax_scalar_bytes_len; }
proof fn vx_canary_accept(b: Seq<u8>) requires accept_spec(b) ensures false {}
proof fn vx_canary_req_to_bytes(p: RangeProof<P>) requires (p.li@.len() + p.ri@.len() + 5 + p.d1@.len()) * 32 + 1 <= usize::MAX ensures false {}
