proof fn vx_canary_axioms_c() ensures false { broadcast use group_ring, ax_scalar_bytes_len; }
proof fn vx_canary_accept(b: Seq<u8>) requires accept_spec(b) ensures false {}
