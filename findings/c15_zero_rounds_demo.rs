// Demonstration of the known finding C15.roundtrip_zero_rounds on the real crate (place in tests/ of a scratch copy):
// a 1-bit single proof verifies, but its own encoding is refused by the decoder.
use curve25519_dalek::scalar::Scalar;
use merlin::Transcript;
use rand_chacha::ChaCha12Rng;
use rand_core::SeedableRng;
use tari_bulletproofs_plus::{
    commitment_opening::CommitmentOpening, generators::pedersen_gens::ExtensionDegree, range_parameters::RangeParameters,
    range_proof::{RangeProof, VerifyAction}, range_statement::RangeStatement, range_witness::RangeWitness,
    ristretto::{create_pedersen_gens_with_extension_degree, RistrettoRangeProof},
};
#[test]
fn zero_round_proof_is_refused_by_its_own_decoder() {
    let mut rng = ChaCha12Rng::seed_from_u64(1);
    let params = RangeParameters::init(1, 1, create_pedersen_gens_with_extension_degree(ExtensionDegree::DefaultPedersen)).unwrap();
    let r = vec![Scalar::from(9u64)];
    let c = params.pc_gens().commit(&Scalar::from(1u64), &r).unwrap();
    let st = RangeStatement::init(params, vec![c], vec![None], None).unwrap();
    let w = RangeWitness::init(vec![CommitmentOpening::new(1, r)]).unwrap();
    let proof = RangeProof::prove_with_rng(&mut Transcript::new(b"ctx"), &st, &w, &mut rng).unwrap();
    RangeProof::verify_batch(&mut [Transcript::new(b"ctx")], &[st], &[proof.clone()], VerifyAction::VerifyOnly).unwrap();
    let bytes = proof.to_bytes();
    assert_eq!(bytes.len(), 1 + 32 * 6);
    // the property demands Ok(equal proof); the real decoder returns Err
    assert!(RistrettoRangeProof::from_bytes(&bytes).is_ok(), "decoder refuses the prover's own output");
}
