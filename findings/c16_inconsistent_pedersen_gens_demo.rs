use curve25519_dalek::scalar::Scalar;
use merlin::Transcript;
use tari_bulletproofs_plus::{
    commitment_opening::CommitmentOpening, generators::pedersen_gens::ExtensionDegree, range_parameters::RangeParameters,
    range_proof::{RangeProof, VerifyAction}, range_statement::RangeStatement, range_witness::RangeWitness,
    ristretto::create_pedersen_gens_with_extension_degree,
};
use rand_chacha::ChaCha12Rng;
use rand_core::SeedableRng;

#[test]
fn inconsistent_pedersen_gens_verify() {
    let mut rng = ChaCha12Rng::seed_from_u64(1);
    // honest proof with degree 2
    let gens = create_pedersen_gens_with_extension_degree(ExtensionDegree::AddOneBasePoint);
    let params = RangeParameters::init(4, 1, gens.clone()).unwrap();
    let r = vec![Scalar::ONE, Scalar::from(2u64)];
    let c = params.pc_gens().commit(&Scalar::from(3u64), &r).unwrap();
    let st = RangeStatement::init(params.clone(), vec![c], vec![None], None).unwrap();
    let w = RangeWitness::init(vec![CommitmentOpening::new(3, r)]).unwrap();
    let proof = RangeProof::prove_with_rng(&mut Transcript::new(b"t"), &st, &w, &mut rng).unwrap();
    // statement whose generators carry the degree-2 tag but only one blinding generator
    let mut bad = gens.clone();
    bad.g_base_vec.truncate(1);
    bad.g_base_compressed_vec.truncate(1);
    let bad_params = RangeParameters::init(4, 1, bad).unwrap();
    let bad_st = RangeStatement::init(bad_params, vec![c], vec![None], None).unwrap();
    let res = std::panic::catch_unwind(move || {
        RangeProof::verify_batch(&mut [Transcript::new(b"t")], &[bad_st], &[proof], VerifyAction::VerifyOnly).is_err()
    });
    assert_eq!(res.ok(), Some(true), "verify_batch must return Err, not panic");
}

#[test]
fn inconsistent_pedersen_gens_prove() {
    let mut rng = ChaCha12Rng::seed_from_u64(1);
    let gens = create_pedersen_gens_with_extension_degree(ExtensionDegree::AddOneBasePoint);
    let params = RangeParameters::init(4, 1, gens.clone()).unwrap();
    let r = vec![Scalar::ONE, Scalar::from(2u64)];
    let c = params.pc_gens().commit(&Scalar::from(3u64), &r).unwrap();
    let mut bad = gens.clone();
    bad.g_base_vec.truncate(1);
    bad.g_base_compressed_vec.truncate(1);
    let bad_params = RangeParameters::init(4, 1, bad).unwrap();
    let bad_st = RangeStatement::init(bad_params, vec![c], vec![None], None).unwrap();
    let w = RangeWitness::init(vec![CommitmentOpening::new(3, r)]).unwrap();
    let res = std::panic::catch_unwind(move || {
        let mut rng = rng;
        RangeProof::prove_with_rng(&mut Transcript::new(b"t"), &bad_st, &w, &mut rng).is_err()
    });
    assert_eq!(res.ok(), Some(true), "prove_with_rng must return Err, not panic");
}
