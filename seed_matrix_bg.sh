#!/bin/bash
# Runs seed_matrix.py from a snapshot of the committed /verif against a scratch copy of /repo, so that neither /repo nor the
# live /verif tree is touched while it runs; copies seeded/*/detection.json and seeded/RESULTS.md back at the end.
set -e
SNAP=/tmp/verif_snap; SR=/tmp/seedrepo; SB=/tmp/seedbuild
rm -rf $SNAP $SR $SB; mkdir -p $SNAP $SB
git -C /verif archive HEAD | tar -x -C $SNAP
mkdir -p $SNAP/vx/target/release && cp /verif/vx/target/release/vx $SNAP/vx/target/release/vx
git clone -q /repo $SR
cd $SNAP
VERIF_REPO=$SR VERIF_BUILD=$SB VERIF_EVIDENCE_DIR=$SB/evidence python3 ./seed_matrix.py "$@" > /tmp/seed_matrix.log 2>&1
for d in seeded/C*_*; do cp $d/detection.json /verif/$d/detection.json 2>/dev/null || true; done
[ -f seeded/RESULTS.md ] && cp seeded/RESULTS.md /verif/seeded/RESULTS.md
rm -rf $SNAP $SR $SB
echo finished >> /tmp/seed_matrix.log
