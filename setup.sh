#!/bin/bash
# Builds the extractor (offline). Everything else is rebuilt from /repo's working tree by ./check on every run.
set -e
cd "$(dirname "$0")/vx"
CARGO_NET_OFFLINE=true cargo build --release --offline
