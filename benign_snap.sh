#!/bin/bash
# usage: benign_snap.sh <snapname> <set> "<props>" [<set> "<props>" ...] - runs benign sets from a snapshot of the committed /verif
SN=$1; shift
SNAP=/tmp/verif_$SN
rm -rf $SNAP; mkdir -p $SNAP
git -C /verif archive HEAD | tar -x -C $SNAP
mkdir -p $SNAP/vx/target/release && cp /verif/vx/target/release/vx $SNAP/vx/target/release/vx
while [ $# -gt 1 ]; do
  tag=$1; props=$2; shift; shift
  R=/tmp/bs_repo_$tag; B=/tmp/bs_build_$tag; rm -rf $R $B; git clone -q /repo $R
  for pf in $SNAP/benign/$tag/patch_*.diff; do
    git -C $R checkout -q -- . ; git -C $R apply $pf || { echo "$tag $(basename $pf) DOES-NOT-APPLY"; continue; }
    for p in $props; do
      o=$(cd $SNAP && VERIF_REPO=$R VERIF_BUILD=$B VERIF_EVIDENCE_DIR=$B/ev ./check $p 2>&1); rc=$?
      echo "$tag $(basename $pf) $p exit=$rc $(echo "$o" | grep -E 'VIOLATION|INCONCLUSIVE|^OK' | head -1 | cut -c1-240)"
    done
  done
  rm -rf $R $B
done
rm -rf $SNAP
echo finished
