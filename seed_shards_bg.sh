#!/bin/bash
# usage: seed_shards_bg.sh <n shards>  - runs the checks against ALL seeded changes, split over n parallel workers, from one snapshot of the committed /verif;
# copies seeded/*/detection.json back and removes every scratch directory. Output: /tmp/seed_shards/<k>.log
N=${1:-4}
OUT=/tmp/seed_shards; rm -rf $OUT; mkdir -p $OUT
ids=($(ls -d /verif/seeded/*/ | xargs -n1 basename | sort))
for k in $(seq 0 $((N-1))); do
  (
    SNAP=/tmp/verif_snapS$k; rm -rf $SNAP; mkdir -p $SNAP
    git -C /verif archive HEAD | tar -x -C $SNAP
    mkdir -p $SNAP/vx/target/release && cp /verif/vx/target/release/vx $SNAP/vx/target/release/vx
    R=/tmp/ss_repo$k; B=/tmp/ss_build$k; rm -rf $R $B; git clone -q /repo $R
    mine=(); i=0; for id in "${ids[@]}"; do [ $((i % N)) -eq $k ] && mine+=($id); i=$((i+1)); done
    (cd $SNAP && VERIF_REPO=$R VERIF_BUILD=$B VERIF_EVIDENCE_DIR=$B/ev python3 -u ./seed_matrix.py "${mine[@]}" 2>&1 | cut -c1-300) > $OUT/$k.log
    for id in "${mine[@]}"; do cp $SNAP/seeded/$id/detection.json /verif/seeded/$id/ 2>/dev/null; done
    rm -rf $R $B $SNAP
    echo finished >> $OUT/$k.log
  ) &
done
wait
