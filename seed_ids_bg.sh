#!/bin/bash
# usage: seed_ids_bg.sh <seed id>...  - runs the checks against the given seeded changes from a snapshot of the committed /verif
SNAP=/tmp/verif_snapI
rm -rf $SNAP; mkdir -p $SNAP
git -C /verif archive HEAD | tar -x -C $SNAP
mkdir -p $SNAP/vx/target/release && cp /verif/vx/target/release/vx $SNAP/vx/target/release/vx
R=/tmp/si_repo; B=/tmp/si_build; rm -rf $R $B; git clone -q /repo $R
(cd $SNAP && VERIF_REPO=$R VERIF_BUILD=$B VERIF_EVIDENCE_DIR=$B/ev python3 ./seed_matrix.py "$@" 2>&1 | cut -c1-400)
for id in "$@"; do cp $SNAP/seeded/$id/detection.json /verif/seeded/$id/ 2>/dev/null; done
rm -rf $R $B $SNAP
echo finished
