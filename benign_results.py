#!/usr/bin/env python3
# usage: benign_results.py <log>...  - writes benign/RESULTS.md from the lines "<set> <patch> <check> exit=<n> <first line>" of the runner logs
import os, sys
V = os.path.dirname(os.path.abspath(__file__))
rows = {}
for f in sys.argv[1:]:
    for l in open(f):
        p = l.rstrip("\n").split(" ", 4)
        if len(p) >= 4 and p[3].startswith("exit="):
            rows[(p[0], p[1], p[2])] = (p[3], (p[4] if len(p) > 4 else "").replace("|", "/")[:200])
with open(os.path.join(V, "benign", "RESULTS.md"), "w") as fh:
    fh.write("| refactoring | check | exit | first line |\n|---|---|---|---|\n")
    for (s, pt, c) in sorted(rows):
        e, t = rows[(s, pt, c)]
        fh.write("| %s/%s | %s | %s | %s |\n" % (s, pt, c, e, t))
print(len(rows), "rows")
