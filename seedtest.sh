#!/bin/bash
# usage: ./seedtest.sh <patch.diff> <Cxx> [<Cyy> ...]   - applies a seeded change to /repo, runs the checks, reverts
patch=$1; shift
git -C /repo apply "$patch" || { echo "patch does not apply"; exit 9; }
for p in "$@"; do
  out=$(/verif/check $p 2>&1); rc=$?
  echo "[$rc] $p: $(echo "$out" | grep -E 'VIOLATION|INCONCLUSIVE|^OK|KNOWN' | head -3 | cut -c1-260 | tr '\n' '|')"
done
git -C /repo checkout -- .
git -C /repo status --short | head -3
