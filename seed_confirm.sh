#!/bin/bash
# usage: seed_confirm.sh <worktree> <src _out/N dir> <seed-id> <property>
# Confirms a seeded change in a scratch worktree: suite passes with the change, demo fails with it and passes without it.
wt=$1; src=$2; id=$3; prop=$4
dst=/verif/seeded/$id
mkdir -p $dst
cp $src/patch.diff $dst/patch.diff; cp $src/demo.rs $dst/demo.rs; cp $src/notes.md $dst/notes.md 2>/dev/null
cd $wt || exit 9
git checkout -q -- . ; rm -f tests/seed_demo.rs
git apply $dst/patch.diff || { echo "patch does not apply" > $dst/confirm.log; exit 9; }
suite=$( (cargo test --offline --lib --test ristretto 2>&1; cargo test --offline --doc 2>&1) | grep -E "^test result" | tr "\n" " ")
suite_ok=$(echo "$suite" | grep -c "FAILED")
cp $dst/demo.rs tests/seed_demo.rs
demo_with=$(cargo test --offline --test seed_demo 2>&1 | grep -E "^test result" | tr '\n' ' ')
git checkout -q -- src
demo_without=$(cargo test --offline --test seed_demo 2>&1 | grep -E "^test result" | tr '\n' ' ')
rm -f tests/seed_demo.rs
python3 - "$dst" "$id" "$prop" "$suite" "$demo_with" "$demo_without" <<'PY'
import json,sys,re
dst,id_,prop,suite,dw,dwo=sys.argv[1:7]
notes=open(dst+'/notes.md').read() if __import__('os').path.exists(dst+'/notes.md') else ''
ok = ('FAILED' not in suite and 'ok.' in suite) and ('FAILED' in dw) and ('FAILED' not in dwo and 'ok.' in dwo)
json.dump({"id":id_,"breaks_property":prop,"confirmed":ok,
  "existing_suite_with_change":suite.strip(),"demo_with_change":dw.strip(),"demo_without_change":dwo.strip(),
  "what_it_needs_to_manifest":notes[:1500],
  "commands":["git apply patch.diff","cargo test --offline --lib --test ristretto; cargo test --offline --doc","cargo test --offline --test seed_demo (with change)","git checkout -- src; cargo test --offline --test seed_demo (without change)"]},
  open(dst+'/meta.json','w'),indent=1)
print(id_,"confirmed" if ok else "NOT CONFIRMED",suite,"|",dw,"|",dwo)
PY
