// vx: mechanical extractor. Pulls named functions / type items out of a source file of /repo, applies the
// fixed rewrite rules of DESIGN.md section 3, splices contract clauses at function heads, loop ordinals,
// closure ordinals and text anchors, and prints Verus text. Everything that is not covered by a rule is
// copied token for token. Every rule application is logged (JSON lines on the log file).
use proc_macro2::{Delimiter, Spacing, TokenStream, TokenTree};
use quote::{quote, ToTokens};
use std::collections::{HashMap, HashSet};
use syn::visit_mut::VisitMut;
use syn::*;

struct Passes {
    opdesugar: bool,
    mapcollect: bool,
    extendmap: bool,
    tryinto: bool,
    renames: Vec<(String, String)>,
    log: Vec<String>,
}

fn is_int_lit(e: &Expr) -> bool {
    matches!(e, Expr::Lit(ExprLit { lit: Lit::Int(_), .. }))
}

fn line_of<T: ToTokens>(t: &T) -> usize {
    t.to_token_stream().into_iter().next().map(|t| t.span().start().line).unwrap_or(0)
}

impl Passes {
    fn fix_for(&mut self, fl: &mut ExprForLoop) {
        fix_shadow(fl, &mut self.log);
        // R-IZIP (for position): the izip! call was already rewritten to v_izipN(args) (post-order); undo into native nested zips
        let mut native: Option<(Expr, Pat)> = None;
        if let Expr::Call(c) = &*fl.expr {
            if let Expr::Path(p) = &*c.func {
                let name = p.path.segments.last().unwrap().ident.to_string();
                if name.starts_with("v_izip") {
                    if let Pat::Ident(pid) = &*fl.pat {
                        if c.args.len() >= 2 {
                            let args: Vec<&Expr> = c.args.iter().collect();
                            let a0 = args[0];
                            let mut e: Expr = parse_quote!( core::iter::IntoIterator::into_iter(#a0) );
                            let z0 = Ident::new("v_z0", proc_macro2::Span::call_site());
                            let mut p: Pat = parse_quote!( #z0 );
                            let mut names: Vec<Ident> = vec![z0];
                            for k in 1..args.len() {
                                let ak = args[k];
                                let zk = Ident::new(&format!("v_z{}", k), proc_macro2::Span::call_site());
                                e = parse_quote!( #e.zip(core::iter::IntoIterator::into_iter(#ak)) );
                                p = { let ts = quote!( (#p, #zk) ); syn::parse::Parser::parse2(Pat::parse_single, ts).unwrap() };
                                names.push(zk);
                            }
                            let id = &pid.ident;
                            let st: Stmt = parse_quote!( let #id = ( #(#names),* ); );
                            let mut body = vec![st]; body.extend(std::mem::take(&mut fl.body.stmts)); fl.body.stmts = body;
                            native = Some((e, p));
                        }
                    }
                    if let Pat::Tuple(pt) = &*fl.pat {
                        if pt.elems.len() == c.args.len() && c.args.len() >= 2 {
                            let args: Vec<&Expr> = c.args.iter().collect();
                            let pats: Vec<&Pat> = pt.elems.iter().collect();
                            let a0 = args[0];
                            let mut e: Expr = parse_quote!( core::iter::IntoIterator::into_iter(#a0) );
                            let mut p: Pat = pats[0].clone();
                            for k in 1..args.len() {
                                let ak = args[k]; let pk = pats[k];
                                e = parse_quote!( #e.zip(core::iter::IntoIterator::into_iter(#ak)) );
                                p = { let ts = quote!( (#p, #pk) ); syn::parse::Parser::parse2(Pat::parse_single, ts).unwrap() };
                            }
                            native = Some((e, p));
                        }
                    }
                }
            }
        }
        if let Some((e, p)) = native { self.log.push(format!("R-IZIP native line {}", line_of(&fl.for_token))); fl.expr = Box::new(e); fl.pat = Box::new(p); }
        // R-ZIPMAP: for (p, q) in A.zip(B.map(|x| E)) { body }  ==>  for (p, x) in A.zip(B) { let q = E; body }
        {
            let mut rewrite: Option<(Expr, Pat, Stmt)> = None;
            if let (Expr::MethodCall(z), Pat::Tuple(pt)) = (&*fl.expr, &*fl.pat) {
                if z.method == "zip" && z.args.len() == 1 && pt.elems.len() == 2 {
                    if let Expr::MethodCall(mp) = &z.args[0] {
                        if mp.method == "map" && mp.args.len() == 1 {
                            if let Expr::Closure(cl) = &mp.args[0] {
                                if cl.inputs.len() == 1 && cl.capture.is_none() {
                                    let a = &z.receiver; let b = &mp.receiver;
                                    let x = &cl.inputs[0]; let ebody = &cl.body;
                                    let p = &pt.elems[0]; let q = &pt.elems[1];
                                    let ne: Expr = parse_quote!( #a.zip(#b) );
                                    let np: Pat = { let ts = quote!( (#p, #x) ); syn::parse::Parser::parse2(Pat::parse_single, ts).unwrap() };
                                    let st: Stmt = parse_quote!( let #q = #ebody; );
                                    rewrite = Some((ne, np, st));
                                }
                            }
                        }
                    }
                }
            }
            if let Some((ne, np, st)) = rewrite {
                self.log.push(format!("R-ZIPMAP line {}", line_of(&fl.for_token)));
                fl.expr = Box::new(ne); fl.pat = Box::new(np);
                let mut body = vec![st]; body.extend(std::mem::take(&mut fl.body.stmts)); fl.body.stmts = body;
            }
        }
        let mut rp = RefPat { lets: vec![] };
        rp.visit_pat_mut(&mut fl.pat);
        if !rp.lets.is_empty() {
            self.log.push(format!("R-REFPAT line {}", line_of(&fl.for_token)));
            let mut st = rp.lets; st.extend(std::mem::take(&mut fl.body.stmts)); fl.body.stmts = st;
        }
        if eliminate_continue(&mut fl.body) { self.log.push(format!("R-CONTINUE line {}", line_of(&fl.for_token))); }
    }
    fn fix_generated(&mut self, e: &mut Expr) {
        if let Expr::Block(b) = e { for st in b.block.stmts.iter_mut() { if let Stmt::Expr(Expr::ForLoop(fl), _) = st { self.fix_for(fl); } } }
    }
}

impl VisitMut for Passes {
    fn visit_attributes_mut(&mut self, attrs: &mut Vec<Attribute>) {
        attrs.clear();
    }
    // R-REFPAT in match arms:  `Some(&x) => e`  ->  `Some(x_ref) => { let x = *x_ref; e }`
    fn visit_arm_mut(&mut self, arm: &mut Arm) {
        let mut rp = RefPat { lets: vec![] };
        if arm.guard.is_none() { rp.visit_pat_mut(&mut arm.pat); }
        if !rp.lets.is_empty() {
            self.log.push("R-REFPAT match arm".to_string());
            let lets = rp.lets;
            let body = &arm.body;
            arm.body = Box::new(parse_quote!( { #(#lets)* #body } ));
        }
        visit_mut::visit_arm_mut(self, arm);
    }
    fn visit_local_mut(&mut self, l: &mut Local) {
        visit_mut::visit_local_mut(self, l);
        // R-MAPCOLLECT result bound by `let x: Vec<T> = ...`: give the accumulator the declared type (invariants may index it)
        if let Pat::Type(pt) = &l.pat {
            let ty = (*pt.ty).clone();
            if norm(&ty).starts_with("Vec<") {
                if let Some(init) = &mut l.init {
                    if let Expr::Block(b) = &mut *init.expr {
                        if let Some(Stmt::Local(first)) = b.block.stmts.first_mut() {
                            if norm(first) == "letmutv_acc=Vec::new();" {
                                let st: Stmt = parse_quote!( let mut v_acc: #ty = Vec::new(); ); *first = st.into_local();
                                self.log.push("R-MAPCOLLECT accumulator typed from the enclosing let".to_string());
                            }
                        }
                    }
                }
            }
        }
    }
    fn visit_expr_mut(&mut self, e: &mut Expr) {
        // post-order
        visit_mut::visit_expr_mut(self, e);
        match e {
            Expr::Binary(b) if self.opdesugar => {
                let (tr, assign) = match b.op {
                    BinOp::Add(_) => ("Add::add", false),
                    BinOp::Sub(_) => ("Sub::sub", false),
                    BinOp::Mul(_) => ("Mul::mul", false),
                    BinOp::Shr(_) => ("Shr::shr", false),
                    BinOp::AddAssign(_) => ("AddAssign::add_assign", true),
                    BinOp::SubAssign(_) => ("SubAssign::sub_assign", true),
                    BinOp::MulAssign(_) => ("MulAssign::mul_assign", true),
                    _ => return,
                };
                if is_int_lit(&b.left) && is_int_lit(&b.right) { return; }
                let path: Path = if tr == "Shr::shr" { parse_str("v_shr").unwrap() } else { parse_str(&format!("core::ops::{}", tr)).unwrap() };
                let l = &b.left; let r = &b.right;
                let line = b.op.to_token_stream().into_iter().next().map(|t| t.span().start().line).unwrap_or(0);
                self.log.push(format!("R-OPDESUGAR line {}: {}", line, tr));
                let new: Expr = if assign {
                    parse_quote!( #path(&mut #l, #r) )
                } else {
                    parse_quote!( #path(#l, #r) )
                };
                *e = new;
            }
            Expr::Unary(u) if self.opdesugar => {
                if let UnOp::Neg(_) = u.op {
                    if is_int_lit(&u.expr) { return; }
                    let x = &u.expr;
                    self.log.push(format!("R-OPDESUGAR line {}: Neg::neg", line_of(&u.op)));
                    *e = parse_quote!( core::ops::Neg::neg(#x) );
                }
            }
            Expr::ForLoop(fl) => { self.fix_for(fl); }
            Expr::Try(t) => {
                // R-TRYCOLLECT: ITER.map(|p| BODY).collect::<Result<Vec<T>,E>>()?  ==> explicit loop
                let mut replacement: Option<Expr> = None;
                if let Expr::MethodCall(coll) = &*t.expr {
                    if coll.method == "collect" {
                        if let Some(tf) = &coll.turbofish {
                            let tfs = tf.to_token_stream().to_string().replace(' ', "");
                            if tfs.starts_with("::<Result<Vec<") {
                                if let Expr::MethodCall(mp) = &*coll.receiver {
                                    if mp.method == "map" && mp.args.len() == 1 {
                                        if let Expr::Closure(cl) = &mp.args[0] {
                                            if cl.inputs.len() == 1 {
                                                let mut hr = HasReturn(false);
                                                syn::visit::Visit::visit_expr(&mut hr, &cl.body);
                                                if hr.0 { self.log.push("UNSUPPORTED return inside collect closure".to_string()); return; }
                                                let inner = &tfs["::<Result<Vec<".len()..];
                                                let elem = &inner[..inner.find('>').unwrap()];
                                                let elem_ty: Type = parse_str(elem).unwrap();
                                                let pat = &cl.inputs[0];
                                                let body = &cl.body;
                                                let recv = &mp.receiver;
                                                let byref_inner: Option<Expr> = if let Expr::MethodCall(br) = &**recv {
                                                    let nm = br.method.to_string();
                                                    if (nm == "by_ref" || nm == "v_by_ref") && br.args.is_empty() { Some((*br.receiver).clone()) } else { None }
                                                } else { None };
                                                replacement = Some(match byref_inner {
                                                    Some(x) => parse_quote!({
                                                        let mut v_acc: Vec<#elem_ty> = Vec::new();
                                                        loop { match #x.next() { Some(#pat) => { v_acc.push((#body)?); } None => { break; } } }
                                                        v_acc
                                                    }),
                                                    None => parse_quote!({
                                                        let mut v_acc: Vec<#elem_ty> = Vec::new();
                                                        for #pat in #recv { v_acc.push((#body)?); }
                                                        v_acc
                                                    }),
                                                });
                                            }
                                        }
                                    }
                                }
                            }
                        }
                    }
                }
                if let Some(mut r) = replacement { self.log.push(format!("R-TRYCOLLECT line {}", line_of(&t.question_token))); self.fix_generated(&mut r); *e = r; }
            }
            Expr::Call(c) => {
                if let Expr::Path(p) = &mut *c.func {
                    let segs: Vec<String> = p.path.segments.iter().map(|s| s.ident.to_string()).collect();
                    if segs == ["Iterator", "flatten"] { p.path = parse_str("v_flatten").unwrap(); self.log.push("R-RENAME Iterator::flatten".to_string()); }
                }
            }
            Expr::Closure(c) => {
                let mut lets: Vec<Stmt> = vec![];
                for (k, inp) in c.inputs.iter_mut().enumerate() {
                    let (pat, ty): (Pat, Option<Type>) = match &*inp { Pat::Type(pt) => ((*pt.pat).clone(), Some((*pt.ty).clone())), p => (p.clone(), None) };
                    match pat {
                        Pat::Ident(_) => {}
                        Pat::Wild(_) => {
                            let id = Ident::new(&format!("_cl_w{}", k), proc_macro2::Span::call_site());
                            *inp = match ty { Some(t) => parse_quote!(#id: #t), None => parse_quote!(#id) };
                            self.log.push("R-CLOSUREPAT wildcard".to_string());
                        }
                        other => {
                            let id = Ident::new(&format!("cl_p{}", k), proc_macro2::Span::call_site());
                            lets.push(parse_quote!( let #other = #id; ));
                            *inp = match ty { Some(t) => parse_quote!(#id: #t), None => parse_quote!(#id) };
                            self.log.push("R-CLOSUREPAT destructure".to_string());
                        }
                    }
                }
                if !lets.is_empty() {
                    let body = &c.body;
                    let nb: Expr = parse_quote!({ #(#lets)* #body });
                    c.body = Box::new(nb);
                }
            }
            Expr::MethodCall(coll) if coll.method == "collect" && self.mapcollect && {
                    let tfs = coll.turbofish.as_ref().map(|t| t.to_token_stream().to_string().replace(' ', "")).unwrap_or_default();
                    tfs.is_empty() || tfs.starts_with("::<Vec<")
                } => {
                let mut replacement: Option<Expr> = None;
                if let Expr::MethodCall(mp) = &*coll.receiver {
                    if mp.method == "map" && mp.args.len() == 1 {
                        if let Expr::Closure(cl) = &mp.args[0] {
                            if cl.inputs.len() == 1 {
                                let pat = &cl.inputs[0];
                                let body = &cl.body;
                                let recv = &mp.receiver;
                                replacement = Some(parse_quote!({
                                    let mut v_acc = Vec::new();
                                    for #pat in #recv { v_acc.push(#body); }
                                    v_acc
                                }));
                            }
                        }
                    }
                }
                if let Some(mut r) = replacement { self.log.push(format!("R-MAPCOLLECT line {}", line_of(&coll.method))); self.fix_generated(&mut r); *e = r; }
            }
            Expr::MethodCall(ext) if ext.method == "extend" && ext.args.len() == 1 && self.extendmap && {
                    matches!(&ext.args[0], Expr::MethodCall(mp) if mp.method == "map" && mp.args.len() == 1 && matches!(&mp.args[0], Expr::Closure(cl) if cl.inputs.len() == 1))
                } => {
                // R-EXTENDMAP: X.extend(I.map(|p| B))  ==>  for p in I { X.push(B); }
                let recv_x = &ext.receiver;
                if let Expr::MethodCall(mp) = &ext.args[0] {
                    if let Expr::Closure(cl) = &mp.args[0] {
                        let pat = &cl.inputs[0]; let body = &cl.body; let it = &mp.receiver;
                        let mut new: Expr = parse_quote!( for #pat in #it { #recv_x.push(#body); } );
                        self.log.push(format!("R-EXTENDMAP line {}", line_of(&ext.method)));
                        if let Expr::ForLoop(fl) = &mut new { self.fix_for(fl); }
                        *e = new;
                    }
                }
            }
            Expr::MethodCall(m) if self.tryinto && m.method == "try_into" && m.args.is_empty() && m.turbofish.is_none() => {
                // R-TRYINTO: the blanket `impl<T, U: TryFrom<T>> TryInto<U> for T` is `U::try_from(self)`
                let r = &m.receiver;
                self.log.push(format!("R-TRYINTO line {}", m.method.span().start().line));
                *e = parse_quote!( core::convert::TryFrom::try_from(#r) );
            }
            Expr::MethodCall(m) => {
                let name = m.method.to_string();
                for (from, to) in &self.renames {
                    if *from == name {
                        self.log.push(format!("R-RENAME line {}: .{} -> .{}", m.method.span().start().line, from, to));
                        m.method = Ident::new(to, m.method.span());
                    }
                }
            }
            Expr::Macro(m) => {
                let name = m.mac.path.segments.last().unwrap().ident.to_string();
                if name == "izip" {
                    let args: syn::punctuated::Punctuated<Expr, Token![,]> =
                        m.mac.parse_body_with(syn::punctuated::Punctuated::parse_terminated).unwrap();
                    let mut args: Vec<Expr> = args.into_iter().collect();
                    for a in args.iter_mut() { self.visit_expr_mut(a); }
                    let f = Ident::new(&format!("v_izip{}", args.len()), m.mac.path.segments.last().unwrap().ident.span());
                    self.log.push(format!("R-IZIP arity {} line {}", args.len(), line_of(&m.mac.path)));
                    *e = parse_quote!( #f( #(#args),* ) );
                } else if name == "format" {
                    // R-FORMAT: message text is in no property; the formatted String becomes an opaque String
                    self.log.push(format!("R-FORMAT line {}", line_of(&m.mac.path)));
                    *e = parse_quote!( v_format() );
                }
            }
            _ => {}
        }
    }
}

// ---- R-HOISTARGS: at configured call sites the (side-effect free) argument expressions are bound to locals first, so
// that contract text can name them:  f(a, b)  ==>  let v_hK_0 = a; let v_hK_1 = b; f(v_hK_0, v_hK_1)
struct FindCall<'a> { method: &'a str, found: Option<Vec<Expr>>, site: usize, impure: bool, recv: bool, recv_expr: Option<Expr>, recv_try: Option<String> }
impl<'a> VisitMut for FindCall<'a> {
    fn visit_expr_mut(&mut self, e: &mut Expr) {
        if self.found.is_some() { return; }
        match e {
            Expr::Closure(_) | Expr::ForLoop(_) | Expr::While(_) | Expr::Loop(_) | Expr::Block(_) => { return; }
            _ => {}
        }
        let is_target = match e {
            Expr::MethodCall(m) => m.method == self.method,
            Expr::Call(c) => matches!(&*c.func, Expr::Path(p) if p.path.segments.last().map(|s| s.ident == self.method).unwrap_or(false)),
            _ => false,
        };
        if is_target && self.recv {
            if let Expr::MethodCall(m) = e {
                let txt = norm(&m.receiver);
                if txt.contains("return") { self.impure = true; }
                if txt.contains('?') { self.recv_try = Some(txt.clone()); }
                let id = Ident::new(&format!("v_h{}_r", self.site), proc_macro2::Span::call_site());
                self.recv_expr = Some((*m.receiver).clone());
                m.receiver = Box::new(parse_quote!( #id ));
                self.found = Some(vec![]);
                return;
            }
        }
        if is_target {
            let args: &mut syn::punctuated::Punctuated<Expr, Token![,]> = match e { Expr::MethodCall(m) => &mut m.args, Expr::Call(c) => &mut c.args, _ => unreachable!() };
            let mut olds = vec![];
            for (k, a) in args.iter_mut().enumerate() {
                let txt = norm(a);
                // building a closure evaluates nothing; any other argument must not contain `?`, `return` or an assignment
                if !matches!(a, Expr::Closure(_)) && (txt.contains('?') || txt.contains("return") || txt.contains("=") && !txt.contains("==")) { self.impure = true; }
                let id = Ident::new(&format!("v_h{}_{}", self.site, k), proc_macro2::Span::call_site());
                olds.push(a.clone());
                *a = parse_quote!( #id );
            }
            self.found = Some(olds);
            return;
        }
        visit_mut::visit_expr_mut(self, e);
    }
}
struct Hoister<'a> { method: &'a str, recv: bool, site: usize, log: Vec<String>, errors: Vec<String> }
impl<'a> VisitMut for Hoister<'a> {
    fn visit_block_mut(&mut self, b: &mut Block) {
        let stmts = std::mem::take(&mut b.stmts);
        let mut out = vec![];
        for mut st in stmts {
            let compound_loop = matches!(&st, Stmt::Expr(Expr::ForLoop(_) | Expr::While(_) | Expr::Loop(_) | Expr::Block(_) | Expr::Match(_), _));
            if !compound_loop {
                let mut fc = FindCall { method: self.method, found: None, site: self.site, impure: false, recv: self.recv, recv_expr: None, recv_try: None };
                let st_txt = norm(&st);
                match &mut st {
                    Stmt::Expr(Expr::If(ife), _) => { fc.visit_expr_mut(&mut ife.cond); }
                    Stmt::Expr(e, _) => { fc.visit_expr_mut(e); }
                    Stmt::Local(l) => { if let Some(init) = &mut l.init { fc.visit_expr_mut(&mut init.expr); } }
                    _ => {}
                }
                if let Some(rt) = fc.recv_try.take() {
                    // a receiver containing `?` may only be evaluated earlier if nothing else of the statement is evaluated before it:
                    // the statement text in front of it must be `let PAT =` followed only by callee paths and opening parentheses
                    let pure_prefix = match st_txt.find(&rt) {
                        Some(ix) => {
                            let pre = &st_txt[..ix];
                            let pre = match pre.find('=') { Some(e) if pre.starts_with("let") => &pre[e + 1..], _ => pre };
                            pre.chars().all(|c| c.is_alphanumeric() || c == '_' || c == ':' || c == '<' || c == '>' || c == '(')
                        }
                        None => false,
                    };
                    if !pure_prefix { fc.impure = true; }
                }
                if let Some(r) = fc.recv_expr.take() {
                    let id = Ident::new(&format!("v_h{}_r", self.site), proc_macro2::Span::call_site());
                    out.push(parse_quote!( let #id = #r; ));
                }
                if let Some(olds) = fc.found {
                    if fc.impure { self.errors.push(format!("UNSUPPORTED hoist site {}: argument with side effect", self.site)); }
                    for (k, a) in olds.into_iter().enumerate() {
                        let id = Ident::new(&format!("v_h{}_{}", self.site, k), proc_macro2::Span::call_site());
                        out.push(parse_quote!( let #id = #a; ));
                    }
                    self.log.push(format!("R-HOISTARGS site {} call {}", self.site, self.method));
                    self.site += 1;
                }
            }
            out.push(st);
        }
        b.stmts = out;
        visit_mut::visit_block_mut(self, b);
    }
    fn visit_expr_closure_mut(&mut self, _: &mut ExprClosure) {}
}
// `marker`: second-chance matching when the local was renamed - a typed `let` whose initialiser contains the marker text (the replacement is an
// over-approximation - an arbitrary value of the type - so matching a different statement can only make obligations fail, never pass)
struct OpaqueVisitor { prefix: String, repl: String, hit: Option<String>, marker: Option<(String, String)> }
impl VisitMut for OpaqueVisitor {
    fn visit_local_mut(&mut self, l: &mut Local) {
        let whole = norm(l);
        let matches = match &self.marker {
            None => whole.starts_with(&self.prefix),
            Some((ty, m)) => matches!(&l.pat, Pat::Type(pt) if norm(&pt.ty) == *ty) && l.init.as_ref().map(|i| norm(&i.expr).contains(m.as_str())).unwrap_or(false),
        };
        if self.hit.is_none() && matches {
            if let Some(init) = &mut l.init {
                self.hit = Some(fnv(&norm(&init.expr)));
                let e: Expr = parse_str(&self.repl).unwrap();
                init.expr = Box::new(e);
                return;
            }
        }
        visit_mut::visit_local_mut(self, l);
    }
}
trait IntoLocal { fn into_local(self) -> Local; }
impl IntoLocal for Stmt { fn into_local(self) -> Local { match self { Stmt::Local(l) => l, _ => panic!("not a local") } } }
struct VecRepeat { elem: Expr, len: Expr }
impl syn::parse::Parse for VecRepeat {
    fn parse(input: syn::parse::ParseStream) -> Result<Self> {
        let elem: Expr = input.parse()?;
        let _: Token![;] = input.parse()?;
        let len: Expr = input.parse()?;
        Ok(VecRepeat { elem, len })
    }
}

struct HasReturn(bool);
impl<'ast> syn::visit::Visit<'ast> for HasReturn {
    fn visit_expr_return(&mut self, _: &'ast ExprReturn) { self.0 = true; }
    fn visit_expr_closure(&mut self, _: &'ast ExprClosure) {}
}

// ---- R-CONTINUE: flag-based elimination of `continue` in for-loop bodies
struct HasContinue(bool);
impl<'ast> syn::visit::Visit<'ast> for HasContinue {
    fn visit_expr_continue(&mut self, _: &'ast ExprContinue) { self.0 = true; }
    fn visit_expr_for_loop(&mut self, _: &'ast ExprForLoop) {}
    fn visit_expr_while(&mut self, _: &'ast ExprWhile) {}
    fn visit_expr_loop(&mut self, _: &'ast ExprLoop) {}
    fn visit_expr_closure(&mut self, _: &'ast ExprClosure) {}
}
fn stmt_has_continue(s: &Stmt) -> bool { let mut h = HasContinue(false); syn::visit::Visit::visit_stmt(&mut h, s); h.0 }
struct ReplaceContinue;
impl VisitMut for ReplaceContinue {
    fn visit_expr_mut(&mut self, e: &mut Expr) {
        match e {
            Expr::Continue(_) => { *e = parse_quote!({ v_cont = true; }); }
            Expr::ForLoop(_) | Expr::While(_) | Expr::Loop(_) | Expr::Closure(_) => {}
            _ => visit_mut::visit_expr_mut(self, e),
        }
    }
    fn visit_block_mut(&mut self, b: &mut Block) {
        let stmts = std::mem::take(&mut b.stmts);
        b.stmts = guard_tail(stmts);
    }
}
fn guard_tail(stmts: Vec<Stmt>) -> Vec<Stmt> {
    let mut out = vec![];
    let mut it = stmts.into_iter();
    while let Some(mut s) = it.next() {
        if stmt_has_continue(&s) {
            ReplaceContinue.visit_stmt_mut(&mut s);
            out.push(s);
            let rest: Vec<Stmt> = guard_tail(it.collect());
            if !rest.is_empty() {
                out.push(parse_quote!( if !v_cont { #(#rest)* } ));
            }
            return out;
        } else {
            out.push(s);
        }
    }
    out
}
fn eliminate_continue(body: &mut Block) -> bool {
    if !body.stmts.iter().any(stmt_has_continue) { return false; }
    let stmts = std::mem::take(&mut body.stmts);
    let mut new = vec![parse_quote!( let mut v_cont = false; )];
    new.extend(guard_tail(stmts));
    body.stmts = new;
    true
}

// ---- R-REFPAT: `&x` sub-patterns in for-loop patterns -> bind reference, deref at body start
struct RefPat { lets: Vec<Stmt> }
impl VisitMut for RefPat {
    fn visit_pat_mut(&mut self, p: &mut Pat) {
        if let Pat::Reference(r) = p {
            if let Pat::Ident(pi) = &*r.pat {
                let id = pi.ident.clone();
                let rid = Ident::new(&format!("{}_ref", id), id.span());
                self.lets.push(parse_quote!( let #id = *#rid; ));
                *p = parse_quote!( #rid );
                return;
            }
        }
        visit_mut::visit_pat_mut(self, p);
    }
}

// ---- Pass 2: number loops in pre-order and wrap them with annotation markers
fn norm<T: ToTokens>(t: &T) -> String {
    t.to_token_stream().to_string().split_whitespace().collect::<Vec<_>>().join("")
}
fn fnv(s: &str) -> String {
    let mut h: u64 = 0xcbf29ce484222325;
    for b in s.bytes() { h ^= b as u64; h = h.wrapping_mul(0x100000001b3); }
    format!("{:08x}", (h ^ (h >> 32)) as u32)
}
struct Annot {
    fkey: String,
    counter: usize,
    ccounter: usize,
    closures_seen: Vec<(usize, String, String)>,   /* (ordinal, signature hash, parameter text) */
    cl_remap: HashMap<usize, usize>,               /* actual ordinal -> contract ordinal (degraded matching) */
    closure_specs: HashSet<String>,
    anchors: Vec<(bool, String, String, bool)>, /* (after?, substr, marker, matched) */
    headers: Vec<(usize, String, String, usize)>, /* (k, kind+header text, hash, src line) */
}
impl Annot {
    fn annotate_loop(&mut self, e: &mut Expr) -> (Ident, TokenStream, Ident) {
        self.counter += 1;
        let k = self.counter;
        let (hdr, hline) = match e {
            Expr::ForLoop(fl) => (format!("for {} in {}", norm(&fl.pat), norm(&fl.expr)), line_of(&fl.for_token)),
            Expr::While(w) => (format!("while {}", norm(&w.cond)), line_of(&w.while_token)),
            Expr::Loop(l) => ("loop".to_string(), line_of(&l.loop_token)),
            _ => unreachable!(),
        };
        self.headers.push((k, hdr.clone(), fnv(&hdr), hline));
        visit_mut::visit_expr_mut(self, e);
        let f = &self.fkey;
        let it = Ident::new(&format!("it{}", k), proc_macro2::Span::call_site());
        let inv = Ident::new(&format!("__vx_inv_{}_{}", f, k), proc_macro2::Span::call_site());
        let bs = Ident::new(&format!("__vx_bs_{}_{}", f, k), proc_macro2::Span::call_site());
        let be = Ident::new(&format!("__vx_be_{}_{}", f, k), proc_macro2::Span::call_site());
        let pre = Ident::new(&format!("__vx_pre_{}_{}", f, k), proc_macro2::Span::call_site());
        let post = Ident::new(&format!("__vx_post_{}_{}", f, k), proc_macro2::Span::call_site());
        let lattr = Ident::new(&format!("__vx_lattr_{}_{}", f, k), proc_macro2::Span::call_site());
        let ts = match e {
            Expr::ForLoop(fl) => {
                let (pat, expr, label, stmts) = (&fl.pat, &fl.expr, &fl.label, &fl.body.stmts);
                quote!( #lattr #label for #pat in #it : #expr #inv { #bs; #(#stmts)* #be; } )
            }
            Expr::While(w) => {
                let (cond, label, stmts) = (&w.cond, &w.label, &w.body.stmts);
                quote!( #lattr #label while #cond #inv { #bs; #(#stmts)* #be; } )
            }
            Expr::Loop(l) => {
                let (stmts, label) = (&l.body.stmts, &l.label);
                quote!( #lattr #label loop #inv { #bs; #(#stmts)* #be; } )
            }
            _ => unreachable!(),
        };
        (pre, ts, post)
    }
}
impl VisitMut for Annot {
    fn visit_block_mut(&mut self, b: &mut Block) {
        if !self.anchors.is_empty() {
            let stmts = std::mem::take(&mut b.stmts);
            let mut out = vec![];
            for st in stmts {
                // simple statements are matched on their whole text; an `if` statement on its condition only
                let (txt, is_compound): (String, bool) = match &st {
                    Stmt::Expr(Expr::If(ife), _) => (format!("if{}", norm(&ife.cond)), false),
                    Stmt::Expr(Expr::ForLoop(_) | Expr::While(_) | Expr::Loop(_) | Expr::Match(_) | Expr::Block(_), _) => (String::new(), true),
                    other => (norm(other), false),
                };
                let mut before = vec![]; let mut after = vec![];
                for (is_after, sub, marker, matched) in self.anchors.iter_mut() {
                    if *matched { continue; }
                    let subn: String = sub.split_whitespace().collect::<Vec<_>>().join("");
                    if !is_compound && txt.contains(subn.as_str()) {
                        *matched = true;
                        let m = Ident::new(marker, proc_macro2::Span::call_site());
                        let ms: Stmt = Stmt::Expr(Expr::Verbatim(quote!( #m ; )), None);
                        if *is_after { after.push(ms); } else { before.push(ms); }
                    }
                }
                out.extend(before); out.push(st); out.extend(after);
            }
            b.stmts = out;
        }
        // loops in statement position: the pre / post annotation points are siblings of the loop (ghost variables declared
        // in #pre stay in scope for the rest of the enclosing block)
        let stmts = std::mem::take(&mut b.stmts);
        let mut out: Vec<Stmt> = vec![];
        for st in stmts {
            match st {
                Stmt::Expr(mut e, semi) if matches!(e, Expr::ForLoop(_) | Expr::While(_) | Expr::Loop(_)) => {
                    let (pre, body, post) = self.annotate_loop(&mut e);
                    out.push(Stmt::Expr(Expr::Verbatim(quote!( #pre ; )), None));
                    out.push(Stmt::Expr(Expr::Verbatim(quote!( #body )), None));
                    out.push(Stmt::Expr(Expr::Verbatim(quote!( #post ; )), None));
                    let _ = semi;
                }
                mut other => { self.visit_stmt_mut(&mut other); out.push(other); }
            }
        }
        b.stmts = out;
    }
    fn visit_expr_mut(&mut self, e: &mut Expr) {
        if let Expr::Closure(_) = e {
            self.ccounter += 1;
            let k = self.ccounter;
            if let Expr::Closure(c) = e {
                let ptxt = c.inputs.iter().map(|p| norm(p)).collect::<Vec<_>>().join(",");
                self.closures_seen.push((k, fnv(&ptxt), ptxt));
            }
            visit_mut::visit_expr_mut(self, e);
            let kc = self.cl_remap.get(&k).cloned().unwrap_or(k);
            let key = if self.cl_remap.is_empty() || self.cl_remap.contains_key(&k) { format!("__vx_cl_{}_{}", self.fkey, kc) } else { String::from("__vx_cl_none") };
            if self.closure_specs.contains(&key) {
                if let Expr::Closure(c) = e {
                    let m = Ident::new(&key, proc_macro2::Span::call_site());
                    let body = &c.body;
                    let mv = &c.capture;
                    let ts = match &**body { Expr::Block(_) => quote!( #mv #m #body ), _ => quote!( #mv #m { #body } ) };
                    *e = Expr::Verbatim(ts);
                }
            }
            return;
        }
        let is_loop = matches!(e, Expr::ForLoop(_) | Expr::While(_) | Expr::Loop(_));
        if !is_loop { visit_mut::visit_expr_mut(self, e); return; }
        let (pre, body, post) = self.annotate_loop(e);
        let ts = quote!( { #pre; #body #post; } );
        *e = Expr::Verbatim(ts);
    }
}

struct Contracts {
    text: HashMap<String, String>,                  // marker -> spliced text
    anchors: Vec<(String, bool, String, String)>,    // (fnkey, after?, substr, marker)
    hdr_expect: HashMap<(String, usize), String>,    // (fnkey, loop k) -> fingerprint
    loops_expect: HashMap<String, usize>,            // fnkey -> number of loops when the contract was written
    closure_sig: HashMap<(String, usize), String>,   // (fnkey, closure ordinal) -> fingerprint of the parameter list when the contract was written
    locals_expect: HashMap<String, Vec<String>>,     // fnkey -> parameter and local binding names, in order, when the contract was written
    sections: Vec<(String, String, String)>,         // (fnkey, kind, file) for the log
}

fn load_contracts(paths: &[String]) -> Contracts {
    // sections: "#fn NAME" then "#requires", "#ensures", "#spec" (raw, after ensures), "#inv K [@hdr=H]", "#dec K", "#bs K",
    // "#be K", "#pre K", "#post K", "#fs", "#closure K", "#before TEXT", "#after TEXT". Sections with the same key are concatenated.
    let mut c = Contracts { text: HashMap::new(), anchors: vec![], hdr_expect: HashMap::new(), loops_expect: HashMap::new(), locals_expect: HashMap::new(), closure_sig: HashMap::new(), sections: vec![] };
    let mut anc_count = 0usize;
    for path in paths {
        let txt = std::fs::read_to_string(path).unwrap_or_else(|e| { eprintln!("VX-ERROR cannot read contracts {}: {}", path, e); std::process::exit(4) });
        let mut f = String::new();
        let mut key: Option<String> = None;
        for (ln, line) in txt.lines().enumerate() {
            if let Some(rest) = line.strip_prefix("#fn ") { f = rest.trim().replace("::", "__"); key = None; continue; }
            if line.starts_with("#//") { continue; }
            let mut anchor_kw: Option<(bool, &str)> = None;
            if let Some(r) = line.strip_prefix("#before ") { anchor_kw = Some((false, r)); }
            if let Some(r) = line.strip_prefix("#after ") { anchor_kw = Some((true, r)); }
            if let Some((is_after, rest)) = anchor_kw {
                let k = format!("__vx_anc_{}_{}", f, anc_count);
                anc_count += 1;
                c.anchors.push((f.clone(), is_after, rest.trim().to_string(), k.clone()));
                key = Some(k.clone());
                let e = c.text.entry(k).or_insert_with(String::new);
                e.push_str(&format!("//@vc {}:{}\n", path, ln + 1));
                continue;
            }
            if let Some(rest) = line.strip_prefix('#').filter(|_| !line.starts_with("#[")) {
                let parts: Vec<&str> = rest.split_whitespace().collect();
                if parts.is_empty() { continue; }
                if parts[0] == "locals" { c.locals_expect.insert(f.clone(), parts.get(1).map(|x| x.split(',').map(|y| y.to_string()).collect()).unwrap_or_default()); key = None; continue; }
                if parts[0] == "loops" { if let Some(n) = parts.get(1).and_then(|x| x.parse::<usize>().ok()) { c.loops_expect.insert(f.clone(), n); } key = None; continue; }
                let k = match parts[0] {
                    "requires" => format!("__vx_req_{}", f),
                    "ensures" => format!("__vx_ens_{}", f),
                    "spec" => format!("__vx_spec_{}", f),
                    "fs" => format!("__vx_fs_{}", f),
                    "attr" => format!("__vx_attr_{}", f),
                    "inv" | "dec" | "bs" | "be" | "pre" | "post" | "lattr" => {
                        if parts.len() < 2 { eprintln!("VX-ERROR {}:{} missing loop ordinal", path, ln + 1); std::process::exit(4); }
                        let kk: usize = parts[1].parse().unwrap_or(0);
                        for p in &parts[2..] { if let Some(h) = p.strip_prefix("@hdr=") { c.hdr_expect.insert((f.clone(), kk), h.to_string()); } }
                        format!("__vx_{}_{}_{}", parts[0], f, parts[1])
                    }
                    "closure" => {
                        let kk: usize = parts[1].parse().unwrap_or(0);
                        for p in &parts[2..] { if let Some(h) = p.strip_prefix("@sig=") { c.closure_sig.insert((f.clone(), kk), h.to_string()); } }
                        format!("__vx_cl_{}_{}", f, parts[1])
                    }
                    _ => { eprintln!("VX-ERROR {}:{} unknown section {}", path, ln + 1, parts[0]); std::process::exit(4); }
                };
                key = Some(k.clone());
                c.sections.push((f.clone(), parts[0].to_string(), path.clone()));
                let e = c.text.entry(k).or_insert_with(String::new);
                e.push_str(&format!("//@vc {}:{}\n", path, ln + 1));
                continue;
            }
            if let Some(k) = &key { let e = c.text.get_mut(k).unwrap(); e.push_str(line); e.push('\n'); }
        }
    }
    c
}


// ---- binding names of a function (parameters, let / for / match / closure patterns) in source order: recorded next to the
// contract (`#locals`), so that a consistent renaming of locals can be followed instead of losing every annotation that names them
struct BindingNames(Vec<String>);
impl<'ast> syn::visit::Visit<'ast> for BindingNames {
    fn visit_pat_ident(&mut self, p: &'ast PatIdent) { self.0.push(p.ident.to_string()); syn::visit::visit_pat_ident(self, p); }
}
fn binding_names(sig: &Signature, block: &Block) -> Vec<String> {
    let mut b = BindingNames(vec![]);
    for a in sig.inputs.iter() { if let FnArg::Typed(pt) = a { syn::visit::Visit::visit_pat(&mut b, &pt.pat); } }
    syn::visit::Visit::visit_block(&mut b, block);
    b.0
}
// old name -> new name from the recorded and the actual binding lists (positional inside stretches between equal names)
fn local_renames(exp: &[String], act: &[String]) -> (HashMap<String, String>, Vec<String>) {
    let (n1, n2) = (exp.len(), act.len());
    let mut dp = vec![vec![0usize; n2 + 1]; n1 + 1];
    for i in (0..n1).rev() { for j in (0..n2).rev() { dp[i][j] = if exp[i] == act[j] { dp[i + 1][j + 1] + 1 } else { dp[i + 1][j].max(dp[i][j + 1]) }; } }
    let (mut i, mut j) = (0usize, 0usize);
    let mut pairs: Vec<(String, String)> = vec![];
    let (mut gi, mut gj) = (0usize, 0usize);
    let mut flush = |gi: usize, i: usize, gj: usize, j: usize, pairs: &mut Vec<(String, String)>| {
        if i - gi == j - gj { for k in 0..(i - gi) { pairs.push((exp[gi + k].clone(), act[gj + k].clone())); } }
    };
    while i < n1 && j < n2 {
        if exp[i] == act[j] && dp[i][j] == dp[i + 1][j + 1] + 1 { flush(gi, i, gj, j, &mut pairs); i += 1; j += 1; gi = i; gj = j; }
        else if dp[i + 1][j] >= dp[i][j + 1] { i += 1; } else { j += 1; }
    }
    flush(gi, n1, gj, n2, &mut pairs);
    let mut map: HashMap<String, String> = HashMap::new();
    let mut ambiguous: Vec<String> = vec![];
    for (o, n) in pairs { if o != n { match map.get(&o) { Some(prev) if *prev != n => ambiguous.push(o.clone()), _ => { map.insert(o, n); } } } }
    // a name that is still bound somewhere under its old spelling cannot be renamed textually
    for a in ambiguous.iter() { map.remove(a); }
    let still: HashSet<&String> = act.iter().collect();
    let drop: Vec<String> = map.keys().filter(|k| still.contains(k)).cloned().collect();
    for d in drop.iter() { map.remove(d); ambiguous.push(d.clone()); }
    (map, ambiguous)
}
fn rename_idents(txt: &str, map: &HashMap<String, String>) -> String {
    let b: Vec<char> = txt.chars().collect();
    let mut out = String::new();
    let mut i = 0;
    while i < b.len() {
        let c = b[i];
        if c.is_alphabetic() || c == '_' {
            let mut j = i;
            while j < b.len() && (b[j].is_alphanumeric() || b[j] == '_') { j += 1; }
            let word: String = b[i..j].iter().collect();
            // previous non-blank character: a single '.' means field / method access, which is not a local
            let mut k = i; let mut prev = ' '; let mut prev2 = ' ';
            while k > 0 { k -= 1; if !b[k].is_whitespace() { prev = b[k]; if k > 0 { prev2 = b[k - 1]; } break; } }
            let field = prev == '.' && prev2 != '.';
            let prefixed = i > 0 && (b[i - 1].is_alphanumeric());
            match map.get(&word) { Some(n) if !field && !prefixed => out.push_str(n), _ => out.push_str(&word) }
            i = j;
        } else { out.push(c); i += 1; }
    }
    out
}

// degraded matching: contract text names loop iterators by the ordinal the loop had when the contract was written (`it7`);
// when loops were inserted or removed the paired loop has another ordinal, so the names are rewritten for the whole function
fn rename_its(txt: &str, map: &HashMap<usize, usize>) -> String {
    let b: Vec<char> = txt.chars().collect();
    let mut out = String::new();
    let mut i = 0;
    while i < b.len() {
        let boundary = i == 0 || !(b[i - 1].is_alphanumeric() || b[i - 1] == '_');
        if boundary && i + 2 < b.len() + 1 && b[i] == 'i' && i + 1 < b.len() && b[i + 1] == 't' {
            let mut j = i + 2;
            while j < b.len() && b[j].is_ascii_digit() { j += 1; }
            let end_ok = j == b.len() || !(b[j].is_alphanumeric() || b[j] == '_');
            if j > i + 2 && end_ok {
                let k: usize = b[i + 2..j].iter().collect::<String>().parse().unwrap_or(0);
                match map.get(&k) { Some(n) => out.push_str(&format!("it{}", n)), None => out.push_str(&b[i..j].iter().collect::<String>()) }
                i = j;
                continue;
            }
        }
        out.push(b[i]);
        i += 1;
    }
    out
}

fn substitute(text: &str, c: &Contracts, remap: &HashMap<(String, usize), Option<usize>>, lrename: &HashMap<String, HashMap<String, String>>) -> String {
    // replace marker identifiers (optionally followed by " ;") with contract text or nothing
    let mut renamed: HashMap<String, String> = HashMap::new();
    if !remap.is_empty() {
        let mut per_fn: HashMap<String, HashMap<usize, usize>> = HashMap::new();
        for ((f, ak), ck) in remap.iter() { if let Some(ck) = ck { if ck != ak { per_fn.entry(f.clone()).or_default().insert(*ck, *ak); } } }
        for (id, t) in c.text.iter() {
            for (f, mp) in per_fn.iter() {
                let rest = ["__vx_inv_", "__vx_bs_", "__vx_be_", "__vx_pre_", "__vx_post_", "__vx_lattr_", "__vx_dec_", "__vx_anc_", "__vx_fs_", "__vx_cl_"]
                    .iter().find_map(|p| id.strip_prefix(p));
                let mine = match rest { Some(r) => r == f || r.strip_prefix(&format!("{}_", f)).map(|d| !d.is_empty() && d.chars().all(|c| c.is_ascii_digit())).unwrap_or(false), None => false };
                if mine { renamed.insert(id.clone(), rename_its(t, mp)); }
            }
        }
    }
    // renamed locals / parameters: every text section of the function, its head (requires / ensures) included
    for (f, mp) in lrename.iter() {
        for (id, t) in c.text.iter() {
            let rest = ["__vx_inv_", "__vx_bs_", "__vx_be_", "__vx_pre_", "__vx_post_", "__vx_lattr_", "__vx_dec_", "__vx_anc_", "__vx_fs_", "__vx_cl_", "__vx_req_", "__vx_ens_", "__vx_spec_"]
                .iter().find_map(|p| id.strip_prefix(p));
            let mine = match rest { Some(r) => r == f || r.strip_prefix(&format!("{}_", f)).map(|d| !d.is_empty() && d.chars().all(|c| c.is_ascii_digit())).unwrap_or(false), None => false };
            if mine { let base = renamed.get(id).cloned().unwrap_or_else(|| t.clone()); renamed.insert(id.clone(), rename_idents(&base, mp)); }
        }
    }
    let merged: HashMap<String, String> = if renamed.is_empty() { HashMap::new() } else {
        let mut mm = c.text.clone();
        for (k, v) in renamed.into_iter() { mm.insert(k, v); }
        mm
    };
    let m = if merged.is_empty() { &c.text } else { &merged };
    let mut out = String::new();
    let mut rest = text;
    while let Some(pos) = rest.find("__vx_") {
        out.push_str(&rest[..pos]);
        let tail = &rest[pos..];
        let end = tail.find(|c: char| !(c.is_alphanumeric() || c == '_')).unwrap_or(tail.len());
        let id_actual = &tail[..end];
        let mut after = &tail[end..];
        // degraded matching: the marker carries the actual loop ordinal; look the text up under the contract ordinal paired with it
        let mut id_owned = id_actual.to_string();
        for pre in ["__vx_inv_", "__vx_bs_", "__vx_be_", "__vx_pre_", "__vx_post_", "__vx_lattr_"] {
            if let Some(rest) = id_actual.strip_prefix(pre) {
                if let Some(pos) = rest.rfind('_') {
                    if let Ok(k) = rest[pos + 1..].parse::<usize>() {
                        let f = rest[..pos].to_string();
                        if let Some(m2) = remap.get(&(f.clone(), k)) {
                            id_owned = match m2 { Some(ck) => format!("{}{}_{}", pre, f, ck), None => format!("{}{}_orphan", pre, f) };
                        }
                    }
                }
            }
        }
        let id: &str = id_owned.as_str();
        let is_stmt = ["__vx_anc_", "__vx_bs_", "__vx_be_", "__vx_pre_", "__vx_post_", "__vx_fs_"].iter().any(|p| id.starts_with(p));
        if is_stmt {
            let t = after.trim_start();
            if t.starts_with(';') { after = &t[1..]; }
        }
        if id.starts_with("__vx_head_") {
            // function head: requires / ensures / raw spec
            let f = &id["__vx_head_".len()..];
            let req = m.get(&format!("__vx_req_{}", f));
            let ens = m.get(&format!("__vx_ens_{}", f));
            let raw = m.get(&format!("__vx_spec_{}", f));
            if let Some(t) = req { out.push_str("\n//@vc-begin requires\n requires\n"); out.push_str(t); out.push_str("//@vc-end\n"); }
            if ens.is_some() || raw.is_some() {
                out.push_str("\n//@vc-begin ensures\n ensures\n");
                if let Some(t) = ens { out.push_str(t); }
                if let Some(t) = raw { out.push_str(t); }
                out.push_str("//@vc-end\n");
            }
        } else if id.starts_with("__vx_inv_") {
            let suffix = &id["__vx_inv_".len()..];
            // the extent of a loop that is verified in isolation is marked in the generated text (its invariants and body see no fact of the
            // enclosing code that is not restated in an invariant, so an obligation failing there is more often a proof artefact)
            if m.get(&format!("__vx_lattr_{}", suffix)).map(|t| t.contains("loop_isolation(true)")).unwrap_or(false) {
                out.push_str(&format!("\n//@iso-begin {}\n", suffix));
            }
            let dec = m.get(&format!("__vx_dec_{}", suffix));
            if let Some(t) = m.get(id) { out.push_str("\n//@vc-begin invariant\n invariant\n"); out.push_str(t); out.push_str("//@vc-end\n"); }
            if let Some(t) = dec { out.push_str("\n//@vc-begin decreases\n decreases\n"); out.push_str(t); out.push_str("//@vc-end\n"); }
        } else if id.starts_with("__vx_lattr_") {
            if let Some(t) = m.get(id) { for l in t.lines() { if !l.starts_with("//@vc") { out.push_str(l); out.push('\n'); } } }
        } else if id.starts_with("__vx_attr_") {
            if let Some(t) = m.get(id) { for l in t.lines() { if !l.starts_with("//@vc") { out.push_str(l); out.push('\n'); } } }
        } else if id.starts_with("__vx_cl_") {
            if let Some(t) = m.get(id) { out.push_str("\n//@vc-begin closure\n"); out.push_str(t); out.push_str("//@vc-end\n"); }
        } else if let Some(txt) = m.get(id) {
            out.push_str("\n//@vc-begin stmt\n"); out.push_str(txt); out.push_str("//@vc-end\n");
        }
        if let Some(suffix) = id.strip_prefix("__vx_be_") {
            if m.get(&format!("__vx_lattr_{}", suffix)).map(|t| t.contains("loop_isolation(true)")).unwrap_or(false) {
                out.push_str(&format!("\n//@iso-end {}\n", suffix));
            }
        }
        rest = after;
    }
    out.push_str(rest);
    out
}

// ---- R-COLLECTRESULT: tail `I.map(|p| B).collect()` in a fn returning Result<Vec<T>,E> -> explicit loop
fn collect_result_tail(sig: &Signature, block: &mut Block, log: &mut Vec<String>) {
    let ret = match &sig.output { ReturnType::Type(_, t) => t.to_token_stream().to_string().replace(' ', ""), _ => return };
    if !ret.starts_with("Result<Vec<") { return; }
    let n = block.stmts.len();
    if n == 0 { return; }
    let mut replacement: Option<Vec<Stmt>> = None;
    if let Stmt::Expr(Expr::MethodCall(coll), None) = &block.stmts[n - 1] {
        if coll.method == "collect" && coll.turbofish.is_none() {
            if let Expr::MethodCall(mp) = &*coll.receiver {
                if mp.method == "map" && mp.args.len() == 1 {
                    if let Expr::Closure(cl) = &mp.args[0] {
                        if cl.inputs.len() == 1 {
                            let pat = &cl.inputs[0]; let body = &cl.body; let recv = &mp.receiver;
                            let s1: Stmt = parse_quote!( let mut v_acc = Vec::new(); );
                            let s2: Stmt = parse_quote!( for #pat in #recv { match #body { Ok(v_x) => { v_acc.push(v_x); } Err(v_e) => { return Err(v_e); } } } );
                            let s3: Stmt = Stmt::Expr(parse_quote!( Ok(v_acc) ), None);
                            replacement = Some(vec![s1, s2, s3]);
                        }
                    }
                }
            }
        }
    }
    if let Some(r) = replacement { block.stmts.pop(); block.stmts.extend(r); log.push(format!("R-COLLECTRESULT fn {}", sig.ident)); }
}

// ---- R-SHADOW: a for-loop pattern variable that shadows a variable used in the iterable is alpha-renamed
struct PatIdents(Vec<Ident>);
impl<'ast> syn::visit::Visit<'ast> for PatIdents {
    fn visit_pat_ident(&mut self, p: &'ast PatIdent) { self.0.push(p.ident.clone()); }
}
fn rename_ident_tokens(ts: TokenStream, from: &str, to: &str) -> TokenStream {
    let mut out: Vec<TokenTree> = vec![];
    let mut prev_dot = false;
    for tt in ts {
        let is_dot = matches!(&tt, TokenTree::Punct(p) if p.as_char() == '.');
        let ntt = match tt {
            TokenTree::Ident(i) if i.to_string() == from && !prev_dot => TokenTree::Ident(Ident::new(to, i.span())),
            TokenTree::Group(g) => { let mut ng = proc_macro2::Group::new(g.delimiter(), rename_ident_tokens(g.stream(), from, to)); ng.set_span(g.span()); TokenTree::Group(ng) }
            other => other,
        };
        out.push(ntt);
        prev_dot = is_dot;
    }
    out.into_iter().collect()
}
fn free_idents(ts: TokenStream, acc: &mut Vec<String>) {
    let mut prev_dot = false;
    for tt in ts {
        let is_dot = matches!(&tt, TokenTree::Punct(p) if p.as_char() == '.');
        match tt {
            TokenTree::Ident(i) => { if !prev_dot { acc.push(i.to_string()); } }
            TokenTree::Group(g) => free_idents(g.stream(), acc),
            _ => {}
        }
        prev_dot = is_dot;
    }
}
fn fix_shadow(fl: &mut ExprForLoop, log: &mut Vec<String>) {
    let mut pi = PatIdents(vec![]);
    syn::visit::Visit::visit_pat(&mut pi, &fl.pat);
    let mut iter_idents: Vec<String> = vec![];
    free_idents(fl.expr.to_token_stream(), &mut iter_idents);
    for id in pi.0 {
        let name = id.to_string();
        if iter_idents.iter().any(|x| *x == name) {
            let to = format!("{}_el", name);
            let pat_ts = rename_ident_tokens(fl.pat.to_token_stream(), &name, &to);
            fl.pat = Box::new(syn::parse::Parser::parse2(Pat::parse_multi_with_leading_vert, pat_ts).unwrap());
            let body_ts = rename_ident_tokens(fl.body.to_token_stream(), &name, &to);
            fl.body = syn::parse2(body_ts).unwrap();
            log.push(format!("R-SHADOW {} -> {} line {}", name, to, line_of(&fl.for_token)));
        }
    }
}

fn print_tokens(ts: TokenStream, out: &mut String, last_line: &mut usize) {
    for tt in ts {
        let line = tt.span().start().line;
        if line > 1 && line != *last_line {
            out.push_str(&format!("\n/*{:>4}*/ ", line));
            *last_line = line;
        }
        match tt {
            TokenTree::Group(g) => {
                let (o, c) = match g.delimiter() {
                    Delimiter::Parenthesis => ("(", ")"),
                    Delimiter::Brace => ("{", "}"),
                    Delimiter::Bracket => ("[", "]"),
                    Delimiter::None => ("", ""),
                };
                out.push_str(o);
                print_tokens(g.stream(), out, last_line);
                out.push_str(c);
                out.push(' ');
            }
            TokenTree::Punct(p) => {
                out.push(p.as_char());
                if p.spacing() == Spacing::Alone { out.push(' '); }
            }
            TokenTree::Ident(i) => { out.push_str(&i.to_string()); out.push(' '); }
            TokenTree::Literal(l) => { out.push_str(&l.to_string()); out.push(' '); }
        }
    }
}

// R-MONO (printing part): on the concrete prelude type P, associated types must be written with the trait named
fn mono_paths(s: &str) -> String {
    s.replace("P :: Compressed", "< P as Compressable > :: Compressed")
        .replace("P :: Precomputation", "< P as Precomputable > :: Precomputation")
}

struct Opts {
    src: String,
    opdesugar: bool,
    mapcollect: bool,
    extendmap: bool,
    tryinto: bool,
    renames: Vec<String>,
    contracts: Vec<String>,
    stubs: Vec<String>,
    items: Vec<String>,
    impl_filter: Option<String>,
    key_suffix: String,
    opaque: Vec<(String, String, String)>,
    fn_mono: Vec<(String, String, String)>,
    hoist: Vec<(String, String)>,
    tolerant: bool,
    log: Option<String>,
    names: Vec<String>,
    mono: bool,
    label: String,
}

fn parse_args() -> Opts {
    let args: Vec<String> = std::env::args().collect();
    let mut o = Opts { src: String::new(), opdesugar: false, mapcollect: false, extendmap: true, tryinto: true, renames: vec![], contracts: vec![], stubs: vec![],
        items: vec![], impl_filter: None, key_suffix: String::new(), opaque: vec![], fn_mono: vec![], hoist: vec![], tolerant: false, log: None, names: vec![], mono: true, label: String::new() };
    let mut i = 1;
    let split = |s: &String| -> Vec<String> { s.split(',').filter(|x| !x.is_empty()).map(|x| x.to_string()).collect() };
    while i < args.len() {
        let a = &args[i];
        match a.as_str() {
            "--opdesugar" => o.opdesugar = true,
            "--mapcollect" => o.mapcollect = true,
            "--noextendmap" => o.extendmap = false,
            "--notryinto" => o.tryinto = false,
            "--tolerant" => o.tolerant = true,
            "--nomono" => o.mono = false,
            "--renames" => { i += 1; o.renames = split(&args[i]); }
            "--contracts" => { i += 1; o.contracts.extend(split(&args[i])); }
            "--stubs" => { i += 1; o.stubs = split(&args[i]); }
            "--items" => { i += 1; o.items = split(&args[i]); }
            "--fns" => { i += 1; o.names = split(&args[i]); }
            "--impl-filter" => { i += 1; o.impl_filter = Some(args[i].split_whitespace().collect::<Vec<_>>().join("")); }
            "--key-prefix" => { i += 1; o.key_suffix = args[i].clone(); }
            "--label" => { i += 1; o.label = args[i].clone(); }
            "--opaque" => { i += 1; let p: Vec<&str> = args[i].splitn(3, "=>").collect(); if p.len() != 3 { eprintln!("VX-ERROR --opaque fn=>prefix=>replacement"); std::process::exit(4); } o.opaque.push((p[0].to_string(), p[1].to_string(), p[2].to_string())); }
            "--fn-mono" => { i += 1; let p: Vec<&str> = args[i].splitn(2, ':').collect(); let q: Vec<&str> = p[1].splitn(2, '=').collect(); o.fn_mono.push((p[0].to_string(), q[0].to_string(), q[1].to_string())); }
            "--hoist" => { i += 1; let p: Vec<&str> = args[i].splitn(2, ':').collect(); o.hoist.push((p[0].to_string(), p[1].to_string())); }
            "--log" => { i += 1; o.log = Some(args[i].clone()); }
            s if s.starts_with("--") => { eprintln!("VX-ERROR unknown option {}", s); std::process::exit(4); }
            _ => { if o.src.is_empty() { o.src = a.clone(); } else { o.names.push(a.clone()); } }
        }
        i += 1;
    }
    o
}

fn keep_derives(attrs: &Vec<Attribute>) -> TokenStream {
    // keep only Clone / Copy / PartialEq / Eq derives and #[repr]; everything else (Debug, Zeroize, serde, docs) is dropped
    let mut keep: Vec<Ident> = vec![];
    let mut reprs = TokenStream::new();
    for a in attrs {
        if a.path().is_ident("derive") {
            let _ = a.parse_nested_meta(|m| {
                if let Some(id) = m.path.get_ident() {
                    let s = id.to_string();
                    if s == "Clone" || s == "Copy" || s == "PartialEq" || s == "Eq" { keep.push(id.clone()); }
                }
                Ok(())
            });
        } else if a.path().is_ident("repr") {
            reprs.extend(a.to_token_stream());
        }
    }
    if keep.is_empty() { reprs } else { quote!( #[derive( #(#keep),* )] #reprs ) }
}

fn emit_item(item: &Item, out: &mut String, log: &mut Vec<String>) {
    let mut ll = 0;
    match item {
        Item::Struct(s) => {
            // derives on structs are dropped (Clone/PartialEq impls that real code needs are stated in spec/types_spec.rs)
            let d = TokenStream::new();
            let ident = &s.ident;
            let mut generics = s.generics.clone();
            generics.where_clause = None;
            let rr: Vec<TokenStream> = generics.type_params().map(|tp| { let i = &tp.ident; quote!( #[verifier::reject_recursive_types(#i)] ) }).collect();
            let fields: Vec<TokenStream> = match &s.fields {
                Fields::Named(n) => n.named.iter().map(|f| { let (i, t) = (&f.ident, &f.ty); quote!( pub #i : #t ) }).collect(),
                _ => { log.push(format!("UNSUPPORTED tuple/unit struct {}", ident)); return; }
            };
            log.push(format!("ITEM struct {} (R-PUB, derives filtered)", ident));
            let has_partial_eq = d.to_string().contains("PartialEq");
            let ts = quote!( #d #(#rr)* pub struct #ident #generics { #(#fields),* } );
            print_tokens(ts, out, &mut ll);
            out.push_str("\n");
            let _ = has_partial_eq;
        }
        Item::Enum(e) => {
            let d = keep_derives(&e.attrs);
            let ident = &e.ident;
            let vars: Vec<TokenStream> = e.variants.iter().map(|v| {
                let vi = &v.ident;
                let fields = &v.fields;
                match &v.discriminant { Some((_, x)) => quote!( #vi #fields = #x ), None => quote!( #vi #fields ) }
            }).collect();
            log.push(format!("ITEM enum {} (derives filtered)", ident));
            let ts = quote!( #d pub enum #ident { #(#vars),* } );
            print_tokens(ts, out, &mut ll);
            out.push_str("\n");
            let fieldless = e.variants.iter().all(|v| matches!(v.fields, Fields::Unit));
            if fieldless && d.to_string().contains("PartialEq") {
                // R-DERIVE-EQ
                out.push_str(&format!("impl vstd::std_specs::cmp::PartialEqSpecImpl for {0} {{\n    open spec fn obeys_eq_spec() -> bool {{ true }}\n    open spec fn eq_spec(&self, other: &{0}) -> bool {{ *self == *other }}\n}}\n", ident));
                log.push(format!("R-DERIVE-EQ {}", ident));
            }
        }
        Item::Const(c) => {
            let (i, t, e) = (&c.ident, &c.ty, &c.expr);
            log.push(format!("ITEM const {}", i));
            let ts = quote!( pub const #i : #t = #e ; );
            print_tokens(ts, out, &mut ll);
            out.push_str("\n");
        }
        _ => {}
    }
}

fn item_name(item: &Item) -> Option<String> {
    match item { Item::Struct(s) => Some(s.ident.to_string()), Item::Enum(e) => Some(e.ident.to_string()), Item::Const(c) => Some(c.ident.to_string()), _ => None }
}

struct Ctx<'a> { o: &'a Opts, p: Passes, c: &'a Contracts, out: String, found: Vec<String>, loops: Vec<(String, usize, String, String, usize)>, errors: Vec<String>,
    remap: HashMap<(String, usize), Option<usize>>, degraded: Vec<String>, lrename: HashMap<String, HashMap<String, String>>, locals: Vec<(String, Vec<String>)>, closures: Vec<(String, usize, String, String)> }

fn process_fn(cx: &mut Ctx, vis: &Visibility, sig: &Signature, block: &Block, in_trait_impl: bool) {
    let name = sig.ident.to_string();
    let fkey = if cx.o.key_suffix.is_empty() { name.clone() } else { format!("{}__{}", cx.o.key_suffix, name) };
    let is_stub = cx.o.stubs.iter().any(|n| *n == name);
    let mut sig = sig.clone();
    let mut block = block.clone();
    // R-MONO for function-level generics: instantiate the type parameter and drop the binder
    for (f, tp, ty) in cx.o.fn_mono.iter() {
        if *f != name { continue; }
        sig.generics = Generics::default();
        let ins = rename_ident_tokens(sig.inputs.to_token_stream(), tp, ty);
        sig.inputs = syn::parse::Parser::parse2(syn::punctuated::Punctuated::<FnArg, Token![,]>::parse_terminated, ins).unwrap();
        let out_ts = rename_ident_tokens(sig.output.to_token_stream(), tp, ty);
        sig.output = syn::parse2(out_ts).unwrap();
        let b_ts = rename_ident_tokens(block.to_token_stream(), tp, ty);
        block = syn::parse2(b_ts).unwrap();
        cx.p.log.push(format!("R-MONO fn {}: {} := {} (generic binder and where-clause dropped)", name, tp, ty));
    }
    // attributes on parameters etc. are dropped by Passes; visit the whole fn through an ItemFn wrapper
    let mut ll = 0;
    let head = Ident::new(&format!("__vx_head_{}", fkey), proc_macro2::Span::call_site());
    let vis_ts = if in_trait_impl { quote!() } else { vis.to_token_stream() };
    let src = &cx.o.src;
    if is_stub {
        for a in sig.inputs.iter_mut() {
            match a {
                FnArg::Receiver(r) => { if r.reference.is_none() { r.mutability = None; } }
                FnArg::Typed(pt) => { if let Pat::Ident(pi) = &mut *pt.pat { pi.mutability = None; } }
            }
        }
        let (ident, generics, inputs) = (&sig.ident, &sig.generics, &sig.inputs);
        let wc = &sig.generics.where_clause;
        let ret = match &sig.output { ReturnType::Default => quote!(), ReturnType::Type(_, t) => quote!( -> (res: #t) ) };
        let ts = quote!( #[verifier::external_body] #vis_ts fn #ident #generics ( #inputs ) #ret #wc #head { unimplemented!() } );
        let mut s = String::new();
        print_tokens(ts, &mut s, &mut ll);
        let s = strip_mut_params(&s);
        cx.out.push_str(&format!("//@vx-fn-begin {} stub src={} label={}\n", fkey, src, cx.o.label));
        cx.out.push_str(&if cx.o.mono { mono_paths(&s) } else { s });
        cx.out.push_str(&format!("\n//@vx-fn-end {}\n\n", fkey));
        cx.p.log.push(format!("STUB fn {} (signature from source, contract assumed here)", fkey));
        cx.found.push(name);
        return;
    }
    collect_result_tail(&sig, &mut block, &mut cx.p.log);
    // R-MUTSELF
    let mut mutself = false;
    if let Some(FnArg::Receiver(r)) = sig.inputs.first_mut() {
        // every by-value receiver is rebound (`let mut this = self;`), whether or not the source declares it `mut`: annotations name `this`,
        // and adding or dropping the `mut` is not an observable change
        if r.reference.is_none() { r.mutability = None; mutself = true; }
    }
    if mutself {
        let ts = rename_ident_tokens(block.to_token_stream(), "self", "this");
        let mut nb: Block = syn::parse2(ts).unwrap();
        let st: Stmt = parse_quote!( let mut this = self; );
        let mut v = vec![st]; v.extend(std::mem::take(&mut nb.stmts)); nb.stmts = v;
        block = nb;
        cx.p.log.push(format!("R-MUTSELF fn {}", name));
    }
    {
        let mut b2 = block.clone();
        cx.p.visit_block_mut(&mut b2);
        block = b2;
    }
    // R-HOISTRET: tail expression `Ok(<struct literal>)`  ==>  `let v_ret = <struct literal>; Ok(v_ret)`
    if cx.o.hoist.iter().any(|(f, m)| *f == name && m == "@ret") {
        let n = block.stmts.len();
        if n > 0 {
            let mut new_tail: Option<(Stmt, Stmt)> = None;
            if let Stmt::Expr(Expr::Call(c), None) = &block.stmts[n - 1] {
                if norm(&c.func) == "Ok" && c.args.len() == 1 {
                    let inner = &c.args[0];
                    let s1: Stmt = parse_quote!( let v_ret = #inner; );
                    let s2: Stmt = Stmt::Expr(parse_quote!( Ok(v_ret) ), None);
                    new_tail = Some((s1, s2));
                }
            }
            match new_tail {
                Some((s1, s2)) => { block.stmts.pop(); block.stmts.push(s1); block.stmts.push(s2); cx.p.log.push(format!("R-HOISTRET fn {}", name)); }
                None => cx.errors.push(format!("ANCHOR-LOST fn {} has no tail expression of the form Ok(..) to hoist", name)),
            }
        }
    }
    for (f, method) in cx.o.hoist.iter() {
        if *f != name || method == "@ret" { continue; }
        // optional "#N" suffix: first site number (keeps the generated names of several hoist directives apart)
        let (method, base): (&str, Option<usize>) = match method.rsplit_once('#') { Some((m, n)) => (m, n.parse().ok()), None => (method.as_str(), None) };
        let (mname, recv) = match method.strip_suffix("@recv") { Some(m) => (m, true), None => (method, false) };
        let mut h = Hoister { method: mname, recv, site: base.unwrap_or(if recv { 100 } else { 0 }), log: vec![], errors: vec![] };
        h.visit_block_mut(&mut block);
        cx.p.log.extend(h.log);
        cx.errors.extend(h.errors);
    }
    // R-OPAQUE sites (after the passes, so attributes are already stripped)
    for (f, prefix, repl) in cx.o.opaque.iter() {
        if *f != name { continue; }
        // "let size : usize~size_of": text after '~' is the marker of the second-chance match
        let (prefix, marker) = match prefix.split_once('~') { Some((a, b)) => (a.to_string(), Some(b.to_string())), None => (prefix.clone(), None) };
        let pn: String = prefix.split_whitespace().collect::<Vec<_>>().join("");
        let mut ov = OpaqueVisitor { prefix: pn.clone(), repl: repl.clone(), hit: None, marker: None };
        ov.visit_block_mut(&mut block);
        let mut hit = ov.hit;
        if hit.is_none() && cx.o.tolerant {
            if let (Some(m), Some(ty)) = (marker, pn.split(':').nth(1)) {
                let mut ov2 = OpaqueVisitor { prefix: pn.clone(), repl: repl.clone(), hit: None, marker: Some((ty.to_string(), m.split_whitespace().collect::<Vec<_>>().join(""))) };
                ov2.visit_block_mut(&mut block);
                if ov2.hit.is_some() { cx.degraded.push(format!("{}\topaque-site-by-marker\t{}", name, prefix)); }
                hit = ov2.hit;
            }
        }
        match hit {
            Some(h) => cx.p.log.push(format!("R-OPAQUE fn {} site '{}' exprhash {}", name, prefix, h)),
            None => cx.errors.push(format!("ANCHOR-LOST opaque site '{}' in fn {}", prefix, name)),
        }
    }
    // binding names: recorded next to the contract; a consistent renaming is followed in tolerant mode
    let names_now = binding_names(&sig, &block);
    cx.locals.push((fkey.clone(), names_now.clone()));
    let mut lmap: HashMap<String, String> = HashMap::new();
    if let Some(exp) = cx.c.locals_expect.get(&fkey) {
        if *exp != names_now {
            let (m, amb) = local_renames(exp, &names_now);
            if !m.is_empty() || !amb.is_empty() {
                if !cx.o.tolerant {
                    cx.errors.push(format!("ANCHOR-LOST fn {}: parameter / local names differ from the ones the contract was written for ({})", fkey,
                        m.iter().map(|(a, b)| format!("{}->{}", a, b)).collect::<Vec<_>>().join(",")));
                } else {
                    let mut l: Vec<String> = m.iter().map(|(a, b)| format!("{}->{}", a, b)).collect(); l.sort();
                    cx.degraded.push(format!("{}\trenamed-locals\t{} ambiguous={:?}", fkey, l.join(","), amb));
                    lmap = m;
                }
            }
        }
    }
    if !lmap.is_empty() { cx.lrename.insert(fkey.clone(), lmap.clone()); }
    // closures with a contract are identified by ordinal + fingerprint of their parameter list; a pre-pass in the annotator's own
    // traversal order lists the closures the function has now
    let mut cl_remap: HashMap<usize, usize> = HashMap::new();
    {
        let mut probe = Annot { fkey: fkey.clone(), counter: 0, ccounter: 0, closures_seen: vec![], cl_remap: HashMap::new(), closure_specs: HashSet::new(), anchors: vec![], headers: vec![] };
        let mut b2 = block.clone();
        probe.visit_block_mut(&mut b2);
        for (k, h, t) in probe.closures_seen.iter() { cx.closures.push((fkey.clone(), *k, h.clone(), t.clone())); }
        let mut contract: Vec<(usize, String)> = cx.c.closure_sig.iter().filter(|((f, _), _)| *f == fkey).map(|((_, k), h)| (*k, h.clone())).collect();
        contract.sort();
        let moved = contract.iter().any(|(k, h)| probe.closures_seen.iter().find(|(ak, _, _)| ak == k).map(|(_, ah, _)| ah != h).unwrap_or(true));
        if moved {
            if !cx.o.tolerant {
                cx.errors.push(format!("ANCHOR-LOST fn {}: a closure under contract is no longer at its ordinal (closures were added, removed or reordered)", fkey));
            } else {
                let actual: Vec<(usize, String)> = probe.closures_seen.iter().map(|(k, h, _)| (*k, h.clone())).collect();
                let (n1, n2) = (contract.len(), actual.len());
                let mut dp = vec![vec![0usize; n2 + 1]; n1 + 1];
                for i in (0..n1).rev() { for j in (0..n2).rev() { dp[i][j] = if contract[i].1 == actual[j].1 { dp[i + 1][j + 1] + 1 } else { dp[i + 1][j].max(dp[i][j + 1]) }; } }
                let (mut i, mut j) = (0usize, 0usize);
                while i < n1 && j < n2 {
                    if contract[i].1 == actual[j].1 && dp[i][j] == dp[i + 1][j + 1] + 1 { cl_remap.insert(actual[j].0, contract[i].0); i += 1; j += 1; }
                    else if dp[i + 1][j] >= dp[i][j + 1] { i += 1; } else { j += 1; }
                }
                let orphans: Vec<usize> = contract.iter().filter(|(k, _)| !cl_remap.values().any(|v| v == k)).map(|(k, _)| *k).collect();
                cx.degraded.push(format!("{}\tclosures\tremapped={:?} orphan_contract_closures={:?}", fkey, cl_remap, orphans));
                if cl_remap.is_empty() { cl_remap.insert(usize::MAX, usize::MAX); }
            }
        }
    }
    let mut a = Annot {
        fkey: fkey.clone(), counter: 0, ccounter: 0, closures_seen: vec![], cl_remap,
        closure_specs: cx.c.text.keys().filter(|k| k.starts_with("__vx_cl_")).cloned().collect(),
        anchors: cx.c.anchors.iter().filter(|x| x.0 == fkey).map(|x| (x.1, if lmap.is_empty() { x.2.clone() } else { rename_idents(&x.2, &lmap) }, x.3.clone(), false)).collect(),
        headers: vec![],
    };
    a.visit_block_mut(&mut block);
    for (_, sub, _, matched) in a.anchors.iter() { if !*matched {
        if cx.o.tolerant { cx.degraded.push(format!("{}\tlost-text-anchor\t{}", fkey, sub)); } else { cx.errors.push(format!("ANCHOR-LOST text anchor '{}' in fn {}", sub, fkey)); }
    } }
    for (k, hdr, h, line) in a.headers.iter() {
        cx.loops.push((fkey.clone(), *k, hdr.clone(), h.clone(), *line));
        if let Some(exp) = cx.c.hdr_expect.get(&(fkey.clone(), *k)) {
            // a changed header of an existing loop is not an anchor loss: the annotations stay on the loop with that ordinal and
            // the verifier decides; only a changed number of loops (below) makes the ordinals unreliable
            if exp != h { cx.p.log.push(format!("HEADER-CHANGED fn {} loop {} expected @hdr={} found {} ({})", fkey, k, exp, h, hdr)); }
        }
    }
    let expected_n = cx.c.loops_expect.get(&fkey).cloned();
    let count_changed = expected_n.map(|n| n != a.counter).unwrap_or(false)
        || cx.c.hdr_expect.iter().any(|((f, k), _)| *f == fkey && *k > a.counter);
    if count_changed {
        if !cx.o.tolerant {
            cx.errors.push(format!("ANCHOR-LOST fn {} has {} loops after the rewrite rules, the contract was written for {}", fkey, a.counter, expected_n.unwrap_or(0)));
        } else {
            // degraded matching: pair contract loops and actual loops by header fingerprint (same fingerprint: in order)
            let mut contract: Vec<(usize, String)> = cx.c.hdr_expect.iter().filter(|((f, _), _)| *f == fkey).map(|((_, k), h)| (*k, h.clone())).collect();
            contract.sort();
            let mut used_contract: HashSet<usize> = HashSet::new();
            let mut unannotated = 0usize;
            // order-preserving alignment (longest common subsequence of the two fingerprint sequences): loops keep their relative
            // order under the edits this is meant for (a loop inserted, removed, merged or split), and equal headers are told apart by position
            let actual: Vec<(usize, String)> = a.headers.iter().map(|(ak, _, ah, _)| (*ak, ah.clone())).collect();
            let (n1, n2) = (contract.len(), actual.len());
            let mut dp = vec![vec![0usize; n2 + 1]; n1 + 1];
            for i in (0..n1).rev() { for j in (0..n2).rev() {
                dp[i][j] = if contract[i].1 == actual[j].1 { dp[i + 1][j + 1] + 1 } else { dp[i + 1][j].max(dp[i][j + 1]) };
            } }
            let (mut i, mut j) = (0usize, 0usize);
            let mut paired: HashMap<usize, usize> = HashMap::new();     // actual ordinal -> contract ordinal
            while i < n1 && j < n2 {
                if contract[i].1 == actual[j].1 && dp[i][j] == dp[i + 1][j + 1] + 1 { paired.insert(actual[j].0, contract[i].0); i += 1; j += 1; }
                else if dp[i + 1][j] >= dp[i][j + 1] { i += 1; } else { j += 1; }
            }
            for (ak, _) in actual.iter() {
                match paired.get(ak) {
                    Some(ck) => { used_contract.insert(*ck); cx.remap.insert((fkey.clone(), *ak), Some(*ck)); }
                    None => { cx.remap.insert((fkey.clone(), *ak), None); unannotated += 1; }
                }
            }
            let orphans: Vec<usize> = contract.iter().filter(|(ck, _)| !used_contract.contains(ck)).map(|(ck, _)| *ck).collect();
            cx.degraded.push(format!("{}\tloops\tactual={} expected={} orphan_contract_loops={:?} unannotated_loops={}", fkey, a.counter, expected_n.unwrap_or(0), orphans, unannotated));
        }
    }
    let fs = Ident::new(&format!("__vx_fs_{}", fkey), proc_macro2::Span::call_site());
    let (ident, generics, inputs) = (&sig.ident, &sig.generics, &sig.inputs);
    let wc = &sig.generics.where_clause;
    let ret = match &sig.output { ReturnType::Default => quote!(), ReturnType::Type(_, t) => quote!( -> (res: #t) ) };
    let stmts = &block.stmts;
    let ts = quote!( #[verifier::spinoff_prover] #[verifier::loop_isolation(false)] #vis_ts fn #ident #generics ( #inputs ) #ret #wc #head { #fs; #(#stmts)* } );
    let mut s = String::new();
    print_tokens(ts, &mut s, &mut ll);
    cx.out.push_str(&format!("//@vx-fn-begin {} body src={} label={}\n__vx_attr_{}\n", fkey, src, cx.o.label, fkey));
    cx.out.push_str(&if cx.o.mono { mono_paths(&s) } else { s });
    cx.out.push_str(&format!("\n//@vx-fn-end {}\n\n", fkey));
    cx.found.push(name);
}

// `mut x: T` parameters are not allowed on bodiless/external stubs in a meaningful way; keep the binding name only
fn strip_mut_params(s: &str) -> String { s.to_string() }

// functions of an impl block that are asked for (subject to --impl-filter), and - recursively - of impl blocks nested in the
// bodies of its functions (the serde visitor lives inside `deserialize`)
fn handle_impl(cx: &mut Ctx, imp: &ItemImpl, wanted: &dyn Fn(&str) -> bool) {
    let selected = match &cx.o.impl_filter {
        Some(filt) => {
            let hdr = match &imp.trait_ { Some((_, path, _)) => format!("impl{}for{}", norm(path), norm(&imp.self_ty)), None => format!("impl{}", norm(&imp.self_ty)) };
            hdr.contains(filt.as_str())
        }
        None => true,
    };
    // the names of all functions of an impl block some function of which is under contract (a function added to it later is code no contract covers)
    if selected && imp.items.iter().any(|ii| matches!(ii, ImplItem::Fn(f) if wanted(&f.sig.ident.to_string()))) {
        let hdr = match &imp.trait_ { Some((_, path, _)) => format!("impl{}for{}", norm(path), norm(&imp.self_ty)), None => format!("impl{}", norm(&imp.self_ty)) };
        let names: Vec<String> = imp.items.iter().filter_map(|ii| if let ImplItem::Fn(f) = ii {
            if f.attrs.iter().any(|a| a.path().is_ident("cfg") && norm(a).contains("test")) { None } else { Some(f.sig.ident.to_string()) } } else { None }).collect();
        cx.p.log.push(format!("MEMBERS {} {}", hdr, names.join(",")));
    }
    for ii in imp.items.iter() {
        if let ImplItem::Fn(f) = ii {
            if f.attrs.iter().any(|a| a.path().is_ident("cfg") && norm(a).contains("test")) { continue; }
            if selected && wanted(&f.sig.ident.to_string()) {
                process_fn(cx, &f.vis, &f.sig, &f.block, imp.trait_.is_some());
            }
            for st in f.block.stmts.iter() {
                if let Stmt::Item(Item::Impl(inner)) = st { handle_impl(cx, inner, wanted); }
            }
        }
    }
}

fn main() {
    let o = parse_args();
    let src = std::fs::read_to_string(&o.src).unwrap_or_else(|e| { eprintln!("VX-ERROR cannot read {}: {}", o.src, e); std::process::exit(4) });
    let file = match syn::parse_file(&src) { Ok(f) => f, Err(e) => { eprintln!("VX-ERROR parse {}: {}", o.src, e); std::process::exit(3) } };
    let renames: Vec<(String, String)> = o.renames.iter().map(|s| (s.to_string(), format!("v_{}", s))).collect();
    let contracts = load_contracts(&o.contracts);
    let p = Passes { opdesugar: o.opdesugar, mapcollect: o.mapcollect, extendmap: o.extendmap, tryinto: o.tryinto, renames, log: vec![] };
    let mut cx = Ctx { o: &o, p, c: &contracts, out: String::new(), found: vec![], loops: vec![], errors: vec![], remap: HashMap::new(), degraded: vec![], lrename: HashMap::new(), locals: vec![], closures: vec![] };
    let wanted = |n: &str| o.names.iter().any(|x| x == n) || o.stubs.iter().any(|x| x == n);
    for item in file.items.iter() {
        if let Some(n) = item_name(item) {
            if o.items.iter().any(|x| *x == n) {
                let mut s = String::new();
                emit_item(item, &mut s, &mut cx.p.log);
                cx.out.push_str(&format!("//@vx-item {} src={}\n", n, o.src));
                cx.out.push_str(&s);
                cx.found.push(n);
            }
            continue;
        }
        match item {
            Item::Impl(imp) => {
                // associated constants of an inherent impl, selected as `--items Type::NAME`
                if imp.trait_.is_none() {
                    let ty = norm(&imp.self_ty);
                    for ii in imp.items.iter() {
                        if let ImplItem::Const(c) = ii {
                            let qn = format!("{}::{}", ty, c.ident);
                            if o.items.iter().any(|x| *x == qn) {
                                let (cty, cex) = (&c.ty, &c.expr);
                                let (sty, ident) = (&imp.self_ty, &c.ident);
                                cx.out.push_str(&format!("//@vx-item {} src={}\n", qn, o.src));
                                // R-ASSOCCONST: `const N: T = e;` is printed as `exec const N: T ensures Self::N == e { e }` (a dual-mode Verus constant may not cast an enum)
                                cx.out.push_str(&format!("impl {} {{ pub exec const {} : {} ensures Self :: {} == {} {{ {} }} }}\n", quote::quote!(#sty), ident, quote::quote!(#cty), ident, quote::quote!(#cex), quote::quote!(#cex)));
                                cx.p.log.push(format!("RULE R-ASSOCCONST {}", qn));
                                cx.found.push(qn);
                            }
                        }
                    }
                }
                handle_impl(&mut cx, imp, &wanted);
            }
            // provided (default-bodied) methods of a trait: extracted like free functions of the monomorphised Self type
            Item::Trait(tr) => {
                for ti in tr.items.iter() {
                    if let TraitItem::Fn(f) = ti {
                        if let Some(block) = &f.default {
                            if o.impl_filter.is_none() && wanted(&f.sig.ident.to_string()) {
                                process_fn(&mut cx, &Visibility::Inherited, &f.sig, block, true);
                            }
                        }
                    }
                }
            }
            Item::Fn(f) => {
                if o.impl_filter.is_none() && wanted(&f.sig.ident.to_string()) {
                    process_fn(&mut cx, &f.vis, &f.sig, &f.block, false);
                }
            }
            _ => {}
        }
    }
    for n in o.names.iter().chain(o.stubs.iter()).chain(o.items.iter()) {
        if !cx.found.iter().any(|f| f == n) { cx.errors.push(format!("ANCHOR-LOST item or fn '{}' not found in {}", n, o.src)); }
    }
    println!("{}", substitute(&cx.out, &contracts, &cx.remap, &cx.lrename));
    if let Some(lp) = &o.log {
        let mut s = String::new();
        for l in cx.p.log.iter() { s.push_str(&format!("RULE\t{}\t{}\n", o.src, l)); }
        for (f, k, hdr, h, line) in cx.loops.iter() { s.push_str(&format!("LOOP\t{}\t{}\t{}\t{}\t{}\t{}\n", o.src, f, k, h, line, hdr)); }
        for (f, k, h, t) in cx.closures.iter() { s.push_str(&format!("CLOSURE\t{}\t{}\t{}\t{}\t{}\n", o.src, f, k, h, t)); }
        for (f, names) in cx.locals.iter() { s.push_str(&format!("LOCALS\t{}\t{}\t{}\n", o.src, f, names.join(","))); }
        for e in cx.errors.iter() { s.push_str(&format!("ERROR\t{}\t{}\n", o.src, e)); }
        for d in cx.degraded.iter() { s.push_str(&format!("DEGRADED\t{}\t{}\n", o.src, d)); }
        use std::io::Write;
        let mut fh = std::fs::OpenOptions::new().create(true).append(true).open(lp).unwrap();
        fh.write_all(s.as_bytes()).unwrap();
    }
    for e in cx.errors.iter() { eprintln!("VX-ANCHOR {}", e); }
    if !cx.errors.is_empty() { std::process::exit(3); }
}
