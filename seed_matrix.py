#!/usr/bin/env python3
# Runs every confirmed seeded change against the check of the property it breaks (applies the patch to /repo, runs, reverts)
# and records how it was detected in seeded/<id>/detection.json and seeded/RESULTS.md.
import json, os, subprocess, sys, glob
V = os.path.dirname(os.path.abspath(__file__))
REPO = os.environ.get("VERIF_REPO", "/repo")
rows = []
only = sys.argv[1:]
for d in sorted(glob.glob(os.path.join(V, "seeded", "C*_*"))):
    sid = os.path.basename(d)
    if only and sid not in only: continue
    meta = json.load(open(os.path.join(d, "meta.json")))
    prop = meta["breaks_property"]
    r = subprocess.run(["git", "-C", REPO, "apply", os.path.join(d, "patch.diff")], capture_output=True, text=True)
    if r.returncode != 0:
        rows.append((sid, prop, "patch does not apply", "")); continue
    try:
        c = subprocess.run([os.path.join(V, "check"), prop], capture_output=True, text=True, cwd=V)
        out = c.stdout
        how = "missed"
        detail = ""
        if c.returncode == 1:
            rp = [l.split("replay=")[1].split()[0] for l in out.splitlines() if l.startswith("VIOLATION")]
            j = json.load(open(rp[0])) if rp else {}
            ob = j.get("obligation", "")
            cex = j.get("counterexample")
            if ob.startswith("replay:") or ob.startswith("standin:"):
                vo = str(j.get("verifier_output", "")) + out
                if ob.startswith("standin"): why = "bounded stand-in"
                elif "does not compile" in vo: why = "deductive check inconclusive: the annotations no longer fit the restructured code"
                elif "is not supported" in vo or "UNSUPPORTED" in vo: why = "deductive check inconclusive: construct outside the extraction rules"
                elif "auxiliary obligation failed" in vo: why = "deductive check inconclusive: only a bookkeeping (aux) obligation failed"
                elif "ANCHOR" in vo or "anchor" in vo: why = "deductive check inconclusive: text / loop anchor lost"
                elif "candidate" in vo: why = "degraded anchor matching: failed obligation confirmed by replay"
                else: why = "deductive check inconclusive"
                how = "replayed failing input on the real crate (%s)" % why
                detail = "%s -> %s" % (cex.get("case"), cex.get("failure"))
            else:
                how = "failed obligation " + ob + (" + replayed failing input" if cex and cex.get("case") else " (no-failing-input-found)")
                detail = (cex or {}).get("failure", "") if isinstance(cex, dict) else ""
        elif c.returncode == 2:
            how = "INCONCLUSIVE (not detected)"
            detail = out.strip().splitlines()[0][:200] if out.strip() else ""
        rows.append((sid, prop, how, detail))
        json.dump({"id": sid, "property": prop, "exit": c.returncode, "how": how, "detail": detail, "output": out[-1500:]}, open(os.path.join(d, "detection.json"), "w"), indent=1)
    finally:
        subprocess.run(["git", "-C", REPO, "checkout", "--", "."])
    print(sid, prop, how, "|", detail[:120], flush=True)
if not only:
    with open(os.path.join(V, "seeded", "RESULTS.md"), "w") as fh:
        fh.write("| seeded change | breaks | detected by | failing input / note |\n|---|---|---|---|\n")
        for r in rows: fh.write("| %s | %s | %s | %s |\n" % r)
