// Kani harnesses on the compiled real crate (thorough tier). Loop-free harnesses over full-domain symbolic inputs are complete
// proofs and give concrete counterexamples; harnesses with #[kani::unwind] are bounded and labelled as such by the driver.
#[cfg(kani)]
mod proofs {
    use core::convert::TryFrom;
    use tari_bulletproofs_plus::{generators::pedersen_gens::ExtensionDegree, verif_hooks::compute_generator_padding};

    // C17 / C15: ExtensionDegree::try_from(u8) accepts exactly 1..=6 and preserves the value (complete: all 256 values)
    #[kani::proof]
    fn ext_try_from_u8_exact() {
        let v: u8 = kani::any();
        let r = ExtensionDegree::try_from(v);
        kani::cover!(r.is_ok());
        kani::cover!(r.is_err());
        assert!(r.is_ok() == (1 <= v && v <= 6));
        if let Ok(d) = r { assert!(d as u8 == v); }
    }

    // C17: ExtensionDegree::try_from(usize) accepts exactly 1..=6 (complete: all usize)
    #[kani::proof]
    fn ext_try_from_usize_exact() {
        let v: usize = kani::any();
        let r = ExtensionDegree::try_from(v);
        kani::cover!(r.is_ok());
        kani::cover!(r.is_err() && v > 255);
        assert!(r.is_ok() == (1 <= v && v <= 6));
        if let Ok(d) = r { assert!(d as usize == v); }
    }

    fn cap(n: usize, k: usize) -> Option<u128> {
        let a = 2u128 * (n as u128);
        if a > usize::MAX as u128 { return None; }
        let b = a * (k as u128);
        if b > usize::MAX as u128 { return None; }
        Some(b)
    }
    // C16 / C12: exact iff-contract of compute_generator_padding (left-to-right checked arithmetic), complete over three usize
    #[kani::proof]
    fn padding_contract() {
        let n: usize = kani::any();
        let m: usize = kani::any();
        let c: usize = kani::any();
        let r = compute_generator_padding(n, m, c);
        match (cap(n, c), cap(n, m)) {
            (Some(pc), Some(ac)) if ac <= pc => { assert!(r.is_ok()); assert!(r.unwrap() as u128 == pc - ac); }
            _ => { assert!(r.is_err()); }
        }
    }
}
