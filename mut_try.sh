#!/bin/bash
# usage: mut_try.sh <unit> <sed-expr on src/range_proof.rs>  (scratch copy, never /repo)
unit=$1; shift
rm -rf /tmp/mt && mkdir -p /tmp/mt && cp -r /repo/src /tmp/mt/
for e in "$@"; do sed -i "$e" /tmp/mt/src/range_proof.rs; done
diff <(cat /repo/src/range_proof.rs) /tmp/mt/src/range_proof.rs | head -6
VERIF_REPO=/tmp/mt python3 /verif/vlib/try_unit.py $unit 300 2>&1 | grep -E "^error|INCONCL" -A3 | grep -v canary | grep -E "^error|-->|INCONCL" | grep -v "aborting" | head -12
rm -rf /tmp/mt
