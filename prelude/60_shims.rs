// ===================== iterator shims =====================
#[verifier::external_body]
#[verifier::reject_recursive_types(T)]
pub struct VSeqIter<T> { v: Vec<T> }
impl<T> VSeqIter<T> {
    pub uninterp spec fn items(&self) -> Seq<T>;
}
impl<T> Iterator for VSeqIter<T> {
    type Item = T;
    #[verifier::external_body]
    fn next(&mut self) -> (r: Option<T>) { unimplemented!() }
}
impl<T> IteratorSpecImpl for VSeqIter<T> {
    open spec fn obeys_prophetic_iter_laws(&self) -> bool { true }
    #[verifier::prophetic]
    open spec fn remaining(&self) -> Seq<T> { self.items() }
    #[verifier::prophetic]
    open spec fn will_return_none(&self) -> bool { true }
    open spec fn decrease(&self) -> Option<nat> { Some(self.items().len()) }
    open spec fn peek(&self, index: int) -> Option<T> { if 0 <= index < self.items().len() { Some(self.items()[index]) } else { None } }
}
pub open spec fn enumerate_seq<T>(s: Seq<T>) -> Seq<(usize, T)> { Seq::new(s.len(), |k: int| (k as usize, s[k])) }
pub open spec fn interleave_seq<T>(a: Seq<T>, b: Seq<T>) -> Seq<T>
    decreases a.len() + b.len()
{
    if a.len() == 0 { b } else { seq![a[0]] + interleave_seq(b, a.drop_first()) }
}
#[verifier::prophetic]
pub uninterp spec fn into_iter_seq<I: IntoIterator>(i: I) -> Seq<I::Item>;

pub trait VIterExt: Iterator + Sized {
    fn v_enumerate(self) -> (r: VSeqIter<(usize, Self::Item)>)
        ensures r.items() == enumerate_seq(self.remaining());
    fn v_chain<J: IntoIterator<Item = Self::Item>>(self, other: J) -> (r: VSeqIter<Self::Item>)
        ensures r.items() == self.remaining() + into_iter_seq(other);
    fn v_interleave<J: Iterator<Item = Self::Item>>(self, other: J) -> (r: VSeqIter<Self::Item>)
        ensures r.items() == interleave_seq(self.remaining(), other.remaining());
    // Iterator::any with a closure whose contract is known: true iff the closure accepts some yielded item
    fn v_any<F: FnMut(Self::Item) -> bool>(self, f: F) -> (r: bool)
        requires forall|k: int| 0 <= k < self.remaining().len() ==> f.requires((#[trigger] self.remaining()[k],))
        ensures
            // `any` calls the closure on the items in order until it answers true: a false result means it answered false for every item
            r ==> exists|k: int| 0 <= k < self.remaining().len() && f.ensures((#[trigger] self.remaining()[k],), true),
            !r ==> forall|k: int| 0 <= k < self.remaining().len() ==> f.ensures((#[trigger] self.remaining()[k],), false);
    // Iterator::cloned: assumes Clone::clone returns a value equal to the original (true of the derived / Copy Clone impls of dalek's scalars and points)
    fn v_cloned<'a, T: Clone + 'a>(self) -> (r: VSeqIter<T>) where Self: Iterator<Item = &'a T>
        ensures r.items().len() == self.remaining().len(),
            forall|k: int| 0 <= k < self.remaining().len() ==> #[trigger] r.items()[k] == *self.remaining()[k];
    // Iterator::fold: the closure is applied to the items in order, threading the accumulator
    // Iterator::copied (as cloned, for Copy types)
    fn v_copied<'a, T: Copy + 'a>(self) -> (r: VSeqIter<T>) where Self: Iterator<Item = &'a T>
        ensures r.items().len() == self.remaining().len(),
            forall|k: int| 0 <= k < self.remaining().len() ==> #[trigger] r.items()[k] == *self.remaining()[k];
    fn v_fold<B, F: FnMut(B, Self::Item) -> B>(self, init: B, f: F) -> (r: B)
        requires forall|acc: B, x: Self::Item| #[trigger] f.requires((acc, x))
        ensures exists|accs: Seq<B>| fold_chain(accs, self.remaining(), init, f, r);
}
#[verifier::opaque]
pub open spec fn fold_chain<B, T, F: FnMut(B, T) -> B>(accs: Seq<B>, items: Seq<T>, init: B, f: F, r: B) -> bool {
    &&& accs.len() == items.len() + 1
    &&& accs[0] == init
    &&& accs[items.len() as int] == r
    &&& forall|k: int| 1 <= k <= items.len() ==> f.ensures((accs[k - 1], items[k - 1]), #[trigger] accs[k])
}
impl<I: Iterator> VIterExt for I {
    #[verifier::external_body]
    fn v_enumerate(self) -> (r: VSeqIter<(usize, Self::Item)>) { unimplemented!() }
    #[verifier::external_body]
    fn v_chain<J: IntoIterator<Item = Self::Item>>(self, other: J) -> (r: VSeqIter<Self::Item>) { unimplemented!() }
    #[verifier::external_body]
    fn v_interleave<J: Iterator<Item = Self::Item>>(self, other: J) -> (r: VSeqIter<Self::Item>) { unimplemented!() }
    #[verifier::external_body]
    fn v_any<F: FnMut(Self::Item) -> bool>(self, f: F) -> (r: bool) { unimplemented!() }
    #[verifier::external_body]
    fn v_cloned<'a, T: Clone + 'a>(self) -> (r: VSeqIter<T>) where Self: Iterator<Item = &'a T> { unimplemented!() }
    #[verifier::external_body]
    fn v_copied<'a, T: Copy + 'a>(self) -> (r: VSeqIter<T>) where Self: Iterator<Item = &'a T> { unimplemented!() }
    #[verifier::external_body]
    fn v_fold<B, F: FnMut(B, Self::Item) -> B>(self, init: B, f: F) -> (r: B) { unimplemented!() }
}
pub struct VRepeat<T> { pub x: T }
pub fn repeat<T>(x: T) -> (r: VRepeat<T>) ensures r.x == x { VRepeat { x } }
impl<T> VRepeat<T> {
    #[verifier::external_body]
    pub fn take(self, n: usize) -> (r: VSeqIter<T>)
        ensures r.items() == Seq::new(n as nat, |k: int| self.x)
    { unimplemented!() }
}
// core::iter::repeat_n
#[verifier::external_body]
pub fn repeat_n<T>(x: T, n: usize) -> (r: VSeqIter<T>)
    ensures r.items() == Seq::new(n as nat, |k: int| x)
{ unimplemented!() }
pub broadcast proof fn lemma_interleave_len<T>(a: Seq<T>, b: Seq<T>)
    ensures #[trigger] interleave_seq(a, b).len() == a.len() + b.len()
    decreases a.len() + b.len()
{
    if a.len() == 0 { } else { lemma_interleave_len(b, a.drop_first()); }
}

#[verifier::external_body]
pub fn once<T>(x: T) -> (r: VSeqIter<T>) ensures r.items() == seq![x] { unimplemented!() }
// values of a scalar / point sequence handed to a multiscalar multiplication (items may be owned or references)
#[verifier::prophetic]
pub uninterp spec fn iter_scalars<I: IntoIterator>(i: I) -> Seq<Scalar>;
#[verifier::prophetic]
pub uninterp spec fn iter_points<I: IntoIterator>(i: I) -> Seq<P>;
pub broadcast axiom fn ax_iter_scalars_vseq<'a>(i: VSeqIter<&'a Scalar>) ensures #[trigger] iter_scalars(i) == i.items().map_values(|x: &Scalar| *x);
pub broadcast axiom fn ax_iter_points_vseq<'a>(i: VSeqIter<&'a P>) ensures #[trigger] iter_points(i) == i.items().map_values(|x: &P| *x);
pub broadcast axiom fn ax_iter_scalars_arr2<'a>(s: [&'a Scalar; 2]) ensures #[trigger] iter_scalars(s) == seq![*s[0], *s[1]];
pub broadcast axiom fn ax_iter_points_arr2<'a>(s: [&'a P; 2]) ensures #[trigger] iter_points(s) == seq![*s[0], *s[1]];
impl P {
    // curve25519-dalek VartimeMultiscalarMul / MultiscalarMul: assert_eq! on the two lengths (edwards.rs), result is the linear combination
    #[verifier::external_body]
    pub fn vartime_multiscalar_mul<I: IntoIterator, J: IntoIterator>(a: I, b: J) -> (r: P)
        requires into_iter_len(a) == into_iter_len(b)
        ensures r == msm(iter_scalars(a), iter_points(b))
    { unimplemented!() }
    #[verifier::external_body]
    pub fn multiscalar_mul<I: IntoIterator, J: IntoIterator>(a: I, b: J) -> (r: P)
        requires into_iter_len(a) == into_iter_len(b)
        ensures r == msm(iter_scalars(a), iter_points(b))
    { unimplemented!() }
}
pub open spec fn min3(a: nat, b: nat, c: nat) -> nat { if a <= b && a <= c { a } else if b <= c { b } else { c } }
#[verifier::external_body]
pub fn v_izip3<A: IntoIterator, B: IntoIterator, C: IntoIterator>(a: A, b: B, c: C) -> (r: VSeqIter<(A::Item, B::Item, C::Item)>)
    ensures r.items().len() == min3(into_iter_seq(a).len(), into_iter_seq(b).len(), into_iter_seq(c).len()),
        forall|k: int| 0 <= k < r.items().len() ==> #[trigger] r.items()[k] == (into_iter_seq(a)[k], into_iter_seq(b)[k], into_iter_seq(c)[k])
{ unimplemented!() }
pub broadcast proof fn lemma_interleave_index<T>(a: Seq<T>, b: Seq<T>, k: int)
    requires a.len() == b.len(), 0 <= k < 2 * a.len()
    ensures #[trigger] interleave_seq(a, b)[k] == (if k % 2 == 0 { a[k / 2] } else { b[k / 2] })
    decreases a.len() + b.len()
{
    reveal_with_fuel(interleave_seq, 3);
    let a1 = a.drop_first();
    let b1 = b.drop_first();
    let x = interleave_seq(b, a1);
    let y = interleave_seq(a1, b1);
    assert(interleave_seq(a, b) == seq![a[0]] + x);
    assert(x == seq![b[0]] + y);
    if k == 0 {
    } else if k == 1 {
        assert((seq![a[0]] + x)[1] == x[0]);
    } else {
        lemma_interleave_index(a1, b1, k - 2);
        lemma_interleave_len(a1, b1);
        assert((seq![a[0]] + x)[k] == x[k - 1]);
        assert((seq![b[0]] + y)[k - 1] == y[k - 2]);
        assert((k - 2) / 2 == k / 2 - 1 && (k - 2) % 2 == k % 2);
        assert(a1[(k - 2) / 2] == a[k / 2] && b1[(k - 2) / 2] == b[k / 2]);
    }
}
