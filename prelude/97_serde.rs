// ===================== serde (external): the two operations the proof's Serialize / Deserialize impls use =====================
pub trait Serializer: Sized {
    type Ok;
    type Error;
    // what the (arbitrary) serializer makes of a byte string
    spec fn ser_bytes_spec(self, v: Seq<u8>) -> Result<Self::Ok, Self::Error>;
    fn serialize_bytes(self, v: &[u8]) -> (r: Result<Self::Ok, Self::Error>)
        ensures r == self.ser_bytes_spec(v@);
}
pub mod serde {
    pub mod de {
        use vstd::prelude::*;
        pub trait Error: Sized {
            fn custom(msg: &str) -> Self;
            fn invalid_length<T>(len: usize, exp: &T) -> Self;
            fn invalid_value<U, T>(unexp: U, exp: &T) -> Self;
            fn invalid_type<U, T>(unexp: U, exp: &T) -> Self;
        }
    }
}
// the visitor type declared inside `deserialize`
pub struct RangeProofVisitor<B>(pub PhantomData<B>);
