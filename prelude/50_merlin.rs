// ===================== merlin model =====================
pub enum TEvent { Append(Seq<u8>, Seq<u8>), Challenge(Seq<u8>, nat) }
#[verifier::external_body]
pub struct Transcript { x: u8 }
#[verifier::external_body]
pub struct TranscriptRng { x: u8 }
#[verifier::external_body]
pub struct TranscriptRngBuilder { x: u8 }
pub struct NullRng;
pub uninterp spec fn le64(x: u64) -> Seq<u8>;
pub uninterp spec fn transcript_init_log(label: Seq<u8>) -> Seq<TEvent>;
pub uninterp spec fn strobe_prf(log: Seq<TEvent>, label: Seq<u8>, n: nat) -> Seq<u8>;
impl Transcript {
    pub uninterp spec fn log(&self) -> Seq<TEvent>;
    #[verifier::external_body]
    pub fn new(label: &'static [u8]) -> (r: Transcript) ensures r.log() == transcript_init_log(label@) { unimplemented!() }
    #[verifier::external_body]
    pub fn append_message(&mut self, label: &'static [u8], message: &[u8])
        ensures final(self).log() == old(self).log().push(TEvent::Append(label@, message@))
    { unimplemented!() }
    #[verifier::external_body]
    pub fn append_u64(&mut self, label: &'static [u8], x: u64)
        ensures final(self).log() == old(self).log().push(TEvent::Append(label@, le64(x)))
    { unimplemented!() }
    #[verifier::external_body]
    pub fn challenge_bytes(&mut self, label: &'static [u8], dest: &mut [u8])
        ensures final(self).log() == old(self).log().push(TEvent::Challenge(label@, old(dest)@.len())),
           final(dest)@ == strobe_prf(old(self).log(), label@, old(dest)@.len()), final(dest)@.len() == old(dest)@.len(),
    { unimplemented!() }
    #[verifier::external_body]
    pub fn build_rng(&self) -> (r: TranscriptRngBuilder)
        ensures r.blog() == self.log(), r.bwit() == Seq::<(Seq<u8>, Seq<u8>)>::empty()
    { unimplemented!() }
}
// ---- ghost model of merlin's transcript RNG: the key is everything absorbed (log), every rekey (label, witness bytes)
// and what finalize() drew from the external RNG; outputs are an uninterpreted PRF of (key, counter).
pub struct RngKey { pub log: Seq<TEvent>, pub wit: Seq<(Seq<u8>, Seq<u8>)>, pub ext: int }
pub struct RngSt { pub key: RngKey, pub ctr: nat }
pub uninterp spec fn rng_ext_token(st: RngSt) -> int;
pub uninterp spec fn rng_u64(st: RngSt) -> u64;
pub uninterp spec fn rng_scalar(st: RngSt) -> Scalar;
pub open spec fn rng_adv(st: RngSt) -> RngSt { RngSt { key: st.key, ctr: st.ctr + 1 } }
pub trait CryptoRngCore {
    spec fn rng_state(&self) -> RngSt;
    spec fn rng_step(st: RngSt) -> RngSt;
    // RngCore::fill_bytes / next_u64 used directly on the caller's generator: one step of the stream, output an uninterpreted function of the state
    fn fill_bytes(&mut self, dest: &mut [u8])
        ensures final(self).rng_state() == Self::rng_step(old(self).rng_state()), final(dest)@.len() == old(dest)@.len(), final(dest)@ == rng_bytes(old(self).rng_state(), old(dest)@.len());
}
pub uninterp spec fn rng_bytes(st: RngSt, n: nat) -> Seq<u8>;
pub open spec fn rng_steps<R: CryptoRngCore>(st: RngSt, n: nat) -> RngSt
    decreases n
{ if n == 0 { st } else { R::rng_step(rng_steps::<R>(st, (n - 1) as nat)) } }
impl TranscriptRngBuilder {
    pub uninterp spec fn blog(&self) -> Seq<TEvent>;
    pub uninterp spec fn bwit(&self) -> Seq<(Seq<u8>, Seq<u8>)>;
    #[verifier::external_body]
    pub fn rekey_with_witness_bytes(self, label: &'static [u8], witness: &[u8]) -> (r: TranscriptRngBuilder)
        ensures r.blog() == self.blog(), r.bwit() == self.bwit().push((label@, witness@))
    { unimplemented!() }
    #[verifier::external_body]
    pub fn finalize<R: CryptoRngCore>(self, rng: &mut R) -> (r: TranscriptRng)
        ensures r.rng_state() == (RngSt { key: RngKey { log: self.blog(), wit: self.bwit(), ext: rng_ext_token(old(rng).rng_state()) }, ctr: 0 }),
            final(rng).rng_state() == R::rng_step(old(rng).rng_state())
    { unimplemented!() }
}
impl TranscriptRng {
    pub uninterp spec fn st(&self) -> RngSt;
    #[verifier::external_body]
    pub fn as_rngcore(&mut self) -> (r: &mut TranscriptRng)
        ensures *r == *old(self), *final(self) == *final(r)
    { unimplemented!() }
    #[verifier::external_body]
    pub fn next_u64(&mut self) -> (r: u64)
        ensures r == rng_u64(old(self).rng_state()), final(self).rng_state() == rng_adv(old(self).rng_state())
    { unimplemented!() }
}
impl CryptoRngCore for TranscriptRng {
    open spec fn rng_state(&self) -> RngSt { self.st() }
    open spec fn rng_step(st: RngSt) -> RngSt { rng_adv(st) }
    #[verifier::external_body]
    fn fill_bytes(&mut self, dest: &mut [u8]) { unimplemented!() }
}
// NullRng (src/utils/nullrng.rs): fills with zeros and keeps no state
pub uninterp spec fn null_rng_state() -> RngSt;
impl CryptoRngCore for NullRng {
    open spec fn rng_state(&self) -> RngSt { null_rng_state() }
    open spec fn rng_step(st: RngSt) -> RngSt { st }
    #[verifier::external_body]
    fn fill_bytes(&mut self, dest: &mut [u8]) { unimplemented!() }
}
// rand_core::OsRng (the operating system's generator, used by RangeProof::prove): a stateless handle; what it returns is not specified
pub struct OsRng;
pub uninterp spec fn os_rng_state() -> RngSt;
impl CryptoRngCore for OsRng {
    open spec fn rng_state(&self) -> RngSt { os_rng_state() }
    open spec fn rng_step(st: RngSt) -> RngSt { st }
    #[verifier::external_body]
    fn fill_bytes(&mut self, dest: &mut [u8]) { unimplemented!() }
}
