// ===================== merlin model =====================
pub enum TEvent { Append(Seq<u8>, Seq<u8>), Challenge(Seq<u8>, nat) }
#[verifier::external_body]
pub struct Transcript { x: u8 }
#[verifier::external_body]
pub struct TranscriptRng { x: u8 }
#[verifier::external_body]
pub struct TranscriptRngBuilder { x: u8 }
pub struct NullRng;
impl CryptoRngCore for NullRng {}
pub uninterp spec fn le64(x: u64) -> Seq<u8>;
pub uninterp spec fn strobe_prf(log: Seq<TEvent>, label: Seq<u8>, n: nat) -> Seq<u8>;
impl Transcript {
    pub uninterp spec fn log(&self) -> Seq<TEvent>;
    #[verifier::external_body]
    pub fn new(label: &'static [u8]) -> (r: Transcript) { unimplemented!() }
    #[verifier::external_body]
    pub fn append_message(&mut self, label: &'static [u8], message: &[u8])
        ensures final(self).log() == old(self).log().push(TEvent::Append(label@, message@))
    { unimplemented!() }
    #[verifier::external_body]
    pub fn append_u64(&mut self, label: &'static [u8], x: u64)
        ensures final(self).log() == old(self).log().push(TEvent::Append(label@, le64(x)))
    { unimplemented!() }
    #[verifier::external_body]
    pub fn challenge_bytes(&mut self, label: &'static [u8], dest: &mut [u8])
        ensures final(self).log() == old(self).log().push(TEvent::Challenge(label@, old(dest)@.len())),
           final(dest)@ == strobe_prf(old(self).log(), label@, old(dest)@.len()), final(dest)@.len() == old(dest)@.len(),
    { unimplemented!() }
    #[verifier::external_body]
    pub fn build_rng(&self) -> (r: TranscriptRngBuilder) { unimplemented!() }
}
impl TranscriptRngBuilder {
    #[verifier::external_body]
    pub fn rekey_with_witness_bytes(self, label: &'static [u8], witness: &[u8]) -> (r: TranscriptRngBuilder) { unimplemented!() }
    #[verifier::external_body]
    pub fn finalize<R: CryptoRngCore>(self, rng: &mut R) -> (r: TranscriptRng) { unimplemented!() }
}
impl TranscriptRng {
    #[verifier::external_body]
    pub fn as_rngcore(&mut self) -> (r: &mut TranscriptRng) { unimplemented!() }
    #[verifier::external_body]
    pub fn next_u64(&mut self) -> (r: u64) { unimplemented!() }
}
