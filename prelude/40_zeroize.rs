// ===================== zeroize =====================
#[verifier::external_body]
#[verifier::reject_recursive_types(T)]
pub struct Zeroizing<T> { t: T }
impl<T> Zeroizing<T> {
    pub uninterp spec fn inner(&self) -> T;
    #[verifier::external_body]
    pub fn new(t: T) -> (r: Self) ensures r.inner() == t { unimplemented!() }
}
impl<T> core::ops::Deref for Zeroizing<T> {
    type Target = T;
    #[verifier::external_body]
    fn deref(&self) -> (r: &T) ensures *r == self.inner() { unimplemented!() }
}
impl<T> core::ops::DerefMut for Zeroizing<T> {
    #[verifier::external_body]
    fn deref_mut(&mut self) -> (r: &mut T) ensures *r == old(self).inner(), final(self).inner() == *final(r) { unimplemented!() }
}

