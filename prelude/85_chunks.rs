// ===================== chunks / chunks_mut =====================
pub open spec fn chunks_count(len: nat, n: nat) -> nat { if n == 0 { 0 } else { ((len + n - 1) / n as int) as nat } }
pub open spec fn chunk_lo(len: nat, n: nat, k: nat) -> nat { if k * n <= len { k * n } else { len } }
pub open spec fn chunk_k<T>(s: Seq<T>, n: nat, k: nat) -> Seq<T> { s.subrange(chunk_lo(s.len(), n, k) as int, chunk_lo(s.len(), n, k + 1) as int) }
pub trait VChunks<T> {
    fn v_chunks<'a>(&'a self, n: usize) -> (r: VSeqIter<&'a [T]>)
        requires n != 0
        ensures r.items().len() == chunks_count(self.chunk_view().len(), n as nat),
            forall|k: int| 0 <= k < r.items().len() ==> (#[trigger] r.items()[k])@ == chunk_k(self.chunk_view(), n as nat, k as nat);
    fn v_chunks_mut<'a>(&'a mut self, n: usize) -> (r: VSeqIter<&'a mut [T]>)
        requires n != 0
        ensures r.items().len() == chunks_count(old(self).chunk_view().len(), n as nat),
            forall|k: int| 0 <= k < r.items().len() ==> (*(#[trigger] r.items()[k]))@ == chunk_k(old(self).chunk_view(), n as nat, k as nat);
    spec fn chunk_view(&self) -> Seq<T>;
}
impl<T> VChunks<T> for [T] {
    open spec fn chunk_view(&self) -> Seq<T> { self@ }
    #[verifier::external_body]
    fn v_chunks<'a>(&'a self, n: usize) -> (r: VSeqIter<&'a [T]>) { unimplemented!() }
    #[verifier::external_body]
    fn v_chunks_mut<'a>(&'a mut self, n: usize) -> (r: VSeqIter<&'a mut [T]>) { unimplemented!() }
}
pub proof fn lemma_chunks_cover(len: nat, n: nat)
    requires n > 0
    ensures chunk_lo(len, n, chunks_count(len, n)) == len,
        forall|k: nat| k < chunks_count(len, n) ==> #[trigger] chunk_lo(len, n, k) < len,
{
    let c = chunks_count(len, n);
    assert(c * n >= len && (c == 0 || (c - 1) * n < len)) by(nonlinear_arith)
        requires c == ((len + n - 1) / n as int) as nat, n > 0;
    assert forall|k: nat| k < c implies #[trigger] chunk_lo(len, n, k) < len by {
        assert(k * n <= (c - 1) * n) by(nonlinear_arith) requires k <= c - 1, n > 0;
    }
}
