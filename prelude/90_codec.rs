// ===================== decoder support: chunks_exact / itertools tuples / canonical scalar decoding =====================
pub uninterp spec fn is_canonical(b: Seq<u8>) -> bool;
pub struct CtOptionScalar { pub o: Option<Scalar> }
impl From<CtOptionScalar> for Option<Scalar> {
    fn from(c: CtOptionScalar) -> (r: Option<Scalar>) ensures r == c.o { c.o }
}
pub uninterp spec fn mod_order32(b: Seq<u8>) -> Scalar;
impl Scalar {
    // Scalar::from_bytes_mod_order: reduction of any 32-byte string (accepts non-canonical encodings; present so that a decoder using it is
    // visible to the contracts instead of being a construct the unit cannot express)
    #[verifier::external_body]
    pub fn from_bytes_mod_order(bytes: [u8; 32]) -> (r: Scalar)
        ensures r == mod_order32(bytes@), is_canonical(bytes@) ==> scalar_bytes(r) == bytes@
    { unimplemented!() }
    #[verifier::external_body]
    pub fn from_canonical_bytes(bytes: [u8; 32]) -> (r: CtOptionScalar)
        ensures r.o is Some <==> is_canonical(bytes@), r.o is Some ==> scalar_bytes(r.o->Some_0) == bytes@
    { unimplemented!() }
}
// ---- chunks_exact with concrete ghost state
#[verifier::external_body]
#[verifier::reject_recursive_types(T)]
pub struct ChunksExact<'a, T> { s: &'a [T] }
impl<'a, T> ChunksExact<'a, T> {
    pub uninterp spec fn chunks(&self) -> Seq<Seq<T>>;
    pub uninterp spec fn pos(&self) -> nat;
    pub uninterp spec fn tail(&self) -> Seq<T>;
    #[verifier::external_body]
    pub fn next(&mut self) -> (r: Option<&'a [T]>)
        ensures final(self).chunks() == old(self).chunks(), final(self).tail() == old(self).tail(),
            old(self).pos() < old(self).chunks().len() ==> r is Some && r->Some_0@ == old(self).chunks()[old(self).pos() as int] && final(self).pos() == old(self).pos() + 1,
            old(self).pos() >= old(self).chunks().len() ==> r is None && final(self).pos() == old(self).pos(),
    { unimplemented!() }
    #[verifier::external_body]
    pub fn remainder(&self) -> (r: &'a [T]) ensures r@ == self.tail() { unimplemented!() }
    #[verifier::external_body]
    pub fn v_by_ref(&mut self) -> (r: &mut Self) ensures *r == *old(self), *final(self) == *final(r) { unimplemented!() }
}
pub trait VChunksExactExt<T> {
    spec fn cx_view(&self) -> Seq<T>;
    fn v_chunks_exact<'a>(&'a self, n: usize) -> (r: ChunksExact<'a, T>)
        requires n != 0
        ensures r.pos() == 0, r.chunks().len() == self.cx_view().len() / (n as nat),
            forall|k: int| 0 <= k < r.chunks().len() ==> #[trigger] r.chunks()[k] == self.cx_view().subrange(k * n, k * n + n),
            r.tail() == self.cx_view().subrange((self.cx_view().len() / (n as nat)) * n, self.cx_view().len() as int);
}
impl<T> VChunksExactExt<T> for [T] {
    open spec fn cx_view(&self) -> Seq<T> { self@ }
    #[verifier::external_body]
    fn v_chunks_exact<'a>(&'a self, n: usize) -> (r: ChunksExact<'a, T>) { unimplemented!() }
}
// ---- itertools tuples (pairs) over a by-ref ChunksExact: model of itertools' TupleBuffer behaviour
pub struct VTuples<'b, 'a> { pub it: &'b mut ChunksExact<'a, u8>, pub buf: Option<&'a [u8]> }
pub trait VTuplesExt<'b, 'a> { fn v_tuples<T>(self) -> VTuples<'b, 'a>; }
impl<'b, 'a> VTuplesExt<'b, 'a> for &'b mut ChunksExact<'a, u8> {
    fn v_tuples<T>(self) -> (r: VTuples<'b, 'a>) ensures r.buf is None, *r.it == *old(self), *final(self) == *final(r.it) { VTuples { it: self, buf: None } }
}
impl<'b, 'a> VTuples<'b, 'a> {
    pub fn next(&mut self) -> (r: Option<(&'a [u8], &'a [u8])>)
        ensures
            *final(final(self).it) == *final(old(self).it),
            final(self).it.chunks() == old(self).it.chunks(), final(self).it.tail() == old(self).it.tail(),
            old(self).it.pos() + 2 <= old(self).it.chunks().len() ==> r is Some && r->Some_0.0@ == old(self).it.chunks()[old(self).it.pos() as int]
                && r->Some_0.1@ == old(self).it.chunks()[old(self).it.pos() as int + 1] && final(self).it.pos() == old(self).it.pos() + 2 && final(self).buf == old(self).buf,
            old(self).it.pos() + 1 == old(self).it.chunks().len() ==> r is None && final(self).it.pos() == old(self).it.pos() + 1 && final(self).buf is Some,
            old(self).it.pos() >= old(self).it.chunks().len() ==> r is None && final(self).it.pos() == old(self).it.pos() && final(self).buf == old(self).buf,
    {
        match self.it.next() {
            None => None,
            Some(a) => match self.it.next() {
                None => { self.buf = Some(a); None },
                Some(b) => Some((a, b)),
            },
        }
    }
    #[verifier::external_body]
    pub fn v_by_ref(&mut self) -> (r: &mut Self) ensures *r == *old(self), *final(self) == *final(r) { unimplemented!() }
    pub fn into_buffer(self) -> (r: VBuf) ensures r.n == (if self.buf is Some { 1usize } else { 0usize }), *final(self.it) == *old(self.it) { VBuf { n: if self.buf.is_some() { 1 } else { 0 } } }
}
pub struct VBuf { pub n: usize }
impl VBuf {
    pub fn len(&self) -> (r: usize) ensures r == self.n { self.n }
    // the buffer of itertools' tuple adaptor is itself an iterator over the left-over elements (at most one for pairs)
    pub fn next(&mut self) -> (r: Option<()>) ensures r is Some <==> old(self).n > 0 { if self.n > 0 { self.n = self.n - 1; Some(()) } else { None } }
}
pub trait VUnzip<A, B>: Sized {
    #[verifier::prophetic]
    spec fn uz_items(&self) -> Seq<(A, B)>;
    fn v_unzip(self) -> (r: (Vec<A>, Vec<B>))
        ensures r.0@.len() == self.uz_items().len(), r.1@.len() == self.uz_items().len(),
            forall|k: int| 0 <= k < self.uz_items().len() ==> r.0@[k] == (#[trigger] self.uz_items()[k]).0 && r.1@[k] == self.uz_items()[k].1;
}
impl<A, B> VUnzip<A, B> for std::vec::IntoIter<(A, B)> {
    #[verifier::prophetic]
    open spec fn uz_items(&self) -> Seq<(A, B)> { IteratorSpec::remaining(self) }
    #[verifier::external_body]
    fn v_unzip(self) -> (r: (Vec<A>, Vec<B>)) { unimplemented!() }
}
impl VToLeBytes for u8 { type Out = [u8; 1];
   #[verifier::external_body] fn v_to_le_bytes(self) -> (r: [u8; 1]) ensures r@ == seq![self] { unimplemented!() } }
pub struct VSliceErr;
pub trait VTryInto<T> { type Err; fn v_try_into(self) -> Result<T, Self::Err>; }
impl<'a> VTryInto<[u8; 32]> for &'a [u8] {
    type Err = VSliceErr;
    #[verifier::external_body]
    fn v_try_into(self) -> (r: Result<[u8; 32], VSliceErr>) ensures r is Ok <==> self@.len() == 32, r is Ok ==> r->Ok_0@ == self@ { unimplemented!() }
}
