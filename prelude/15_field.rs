// ===================== field axioms (commutative ring with inverses) =====================
pub broadcast axiom fn ax_add_comm(a: Scalar, b: Scalar) ensures #[trigger] s_add(a, b) == s_add(b, a);
pub broadcast axiom fn ax_add_assoc(a: Scalar, b: Scalar, c: Scalar) ensures #[trigger] s_add(s_add(a, b), c) == s_add(a, s_add(b, c));
pub broadcast axiom fn ax_add_zero(a: Scalar) ensures #[trigger] s_add(a, Scalar::ZERO) == a;
pub broadcast axiom fn ax_add_neg(a: Scalar) ensures #[trigger] s_add(a, s_neg(a)) == Scalar::ZERO;
pub broadcast axiom fn ax_sub_def(a: Scalar, b: Scalar) ensures #[trigger] s_sub(a, b) == s_add(a, s_neg(b));
pub broadcast axiom fn ax_mul_comm(a: Scalar, b: Scalar) ensures #[trigger] s_mul(a, b) == s_mul(b, a);
pub broadcast axiom fn ax_mul_assoc(a: Scalar, b: Scalar, c: Scalar) ensures #[trigger] s_mul(s_mul(a, b), c) == s_mul(a, s_mul(b, c));
pub broadcast axiom fn ax_mul_one(a: Scalar) ensures #[trigger] s_mul(a, Scalar::ONE) == a;
pub broadcast axiom fn ax_distr(a: Scalar, b: Scalar, c: Scalar) ensures #[trigger] s_mul(a, s_add(b, c)) == s_add(s_mul(a, b), s_mul(a, c));
pub broadcast axiom fn ax_inv(a: Scalar) requires a != Scalar::ZERO ensures #[trigger] s_mul(a, s_inv(a)) == Scalar::ONE;
pub broadcast axiom fn ax_pow_zero(a: Scalar) ensures #[trigger] s_pow(a, 0) == Scalar::ONE;
pub broadcast axiom fn ax_pow_succ(a: Scalar, n: nat) ensures #[trigger] s_pow(a, n + 1) == s_mul(a, s_pow(a, n));
// the integers embed into the field: 1 + 1 is the image of 2 (dalek: Scalar::from(2u8) == Scalar::ONE + Scalar::ONE)
pub axiom fn ax_one_plus_one() ensures s_add(Scalar::ONE, Scalar::ONE) == s_of_nat(2);
pub broadcast group group_ring {
    ax_add_comm, ax_add_assoc, ax_add_zero, ax_add_neg, ax_sub_def, ax_mul_comm, ax_mul_assoc, ax_mul_one, ax_distr,
}
// T1: d[j*n + i] = (z^2)^(j+1) * 2^i
pub open spec fn d_t1(zsq: Scalar, two: Scalar, j: nat, i: nat) -> Scalar { s_mul(s_pow(zsq, j + 1), s_pow(two, i)) }
pub proof fn lemma_d_first(zsq: Scalar, two: Scalar)
    ensures zsq == d_t1(zsq, two, 0, 0)
{
    broadcast use ax_pow_zero, ax_pow_succ, group_ring;
    ax_pow_succ(zsq, 0); ax_pow_zero(zsq); ax_pow_zero(two);
    assert(s_pow(zsq, 1) == s_mul(zsq, s_pow(zsq, 0)));
}
pub proof fn lemma_d_double(zsq: Scalar, two: Scalar, j: nat, i: nat, prev: Scalar)
    requires prev == d_t1(zsq, two, j, i)
    ensures s_mul(two, prev) == d_t1(zsq, two, j, i + 1)
{
    broadcast use ax_pow_zero, ax_pow_succ, group_ring;
    let a = s_pow(zsq, j + 1); let b = s_pow(two, i);
    ax_pow_succ(two, i);
    assert(s_mul(two, s_mul(a, b)) == s_mul(a, s_mul(two, b)));
}
pub proof fn lemma_d_next_party(zsq: Scalar, two: Scalar, j: nat, i: nat, prev: Scalar)
    requires prev == d_t1(zsq, two, j, i)
    ensures s_mul(prev, zsq) == d_t1(zsq, two, j + 1, i)
{
    broadcast use ax_pow_zero, ax_pow_succ, group_ring;
    let a = s_pow(zsq, j + 1); let b = s_pow(two, i);
    ax_pow_succ(zsq, j + 1);
    assert(s_mul(s_mul(a, b), zsq) == s_mul(s_mul(zsq, a), b));
}
pub proof fn lemma_idx_bound(jj: int, ii: int, j: int, n: int)
    requires 0 <= jj < j, 0 <= ii < n
    ensures 0 <= jj * n + ii < j * n
{
    assert((jj + 1) * n <= j * n) by(nonlinear_arith) requires jj + 1 <= j, n >= 0;
    assert((jj + 1) * n == jj * n + n) by(nonlinear_arith);
    assert(jj * n >= 0) by(nonlinear_arith) requires jj >= 0, n >= 0;
}
pub proof fn lemma_is_pow2_mul(a: int, b: int)
    requires vstd::arithmetic::power2::is_pow2(a), vstd::arithmetic::power2::is_pow2(b)
    ensures vstd::arithmetic::power2::is_pow2(a * b)
    decreases a
{
    reveal_with_fuel(vstd::arithmetic::power2::is_pow2, 2);
    if a <= 1 {
        assert(a == 1);
        assert(a * b == b) by(nonlinear_arith) requires a == 1;
    } else {
        let a2 = a / 2;
        lemma_is_pow2_mul(a2, b);
        let x = a2 * b;
        assert(a * b == 2 * x) by(nonlinear_arith) requires a == 2 * a2, x == a2 * b;
        assert(x > 0) by(nonlinear_arith) requires a2 > 0, b > 0, x == a2 * b;
        assert((2 * x) % 2 == 0 && (2 * x) / 2 == x);
    }
}
pub proof fn lemma_is_pow2_half(n: int)
    requires vstd::arithmetic::power2::is_pow2(n), n > 1
    ensures n % 2 == 0, vstd::arithmetic::power2::is_pow2(n / 2), n / 2 >= 1
{
    reveal_with_fuel(vstd::arithmetic::power2::is_pow2, 2);
}
pub proof fn lemma_pow_step_r(a: Scalar, n: nat, cur: Scalar)
    requires cur == s_pow(a, n)
    ensures s_mul(cur, a) == s_pow(a, n + 1)
{
    broadcast use group_ring;
    ax_pow_succ(a, n);
}
pub proof fn lemma_pow_zero(a: Scalar) ensures s_pow(a, 0) == Scalar::ONE { ax_pow_zero(a); }
pub broadcast axiom fn ax_no_zero_div(a: Scalar, b: Scalar) requires #[trigger] s_mul(a, b) == Scalar::ZERO ensures a == Scalar::ZERO || b == Scalar::ZERO;
pub axiom fn ax_one_ne_zero() ensures Scalar::ONE != Scalar::ZERO;
pub proof fn lemma_pow_nonzero(a: Scalar, n: nat)
    requires a != Scalar::ZERO
    ensures s_pow(a, n) != Scalar::ZERO
    decreases n
{
    if n == 0 { ax_pow_zero(a); ax_one_ne_zero(); }
    else { lemma_pow_nonzero(a, (n - 1) as nat); ax_pow_succ(a, (n - 1) as nat); if s_pow(a, n) == Scalar::ZERO { ax_no_zero_div(a, s_pow(a, (n - 1) as nat)); } }
}
