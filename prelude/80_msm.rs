// ===================== MSM =====================
pub uninterp spec fn precomp_table(p: Precomp) -> Seq<P>;
pub open spec fn deref_s(s: Seq<&Scalar>) -> Seq<Scalar> { s.map_values(|x: &Scalar| *x) }
pub open spec fn deref_p(s: Seq<&P>) -> Seq<P> { s.map_values(|x: &P| *x) }
impl Precomp {
    #[verifier::external_body]
    pub fn vartime_mixed_multiscalar_mul<'a, I: Iterator<Item = &'a Scalar>, J: Iterator<Item = &'a Scalar>, K: Iterator<Item = &'a P>>(&self, a: I, b: J, c: K) -> (r: P)
        requires a.remaining().len() == precomp_table(*self).len(), b.remaining().len() == c.remaining().len()
        ensures r == p_add(msm(deref_s(a.remaining()), precomp_table(*self)), msm(deref_s(b.remaining()), deref_p(c.remaining())))
    { unimplemented!() }
}
pub open spec fn flatten_opts<'a, T>(s: Seq<&'a Option<T>>) -> Seq<&'a T>
    decreases s.len()
{
    if s.len() == 0 { Seq::empty() } else {
        let r = flatten_opts(s.drop_last());
        match s.last() { Some(x) => r.push(x), None => r }
    }
}
pub proof fn lemma_flatten_member<'a, T>(s: Seq<&'a Option<T>>, q: int)
    requires 0 <= q < s.len(), *s[q] is Some
    ensures exists|k: int| 0 <= k < flatten_opts(s).len() && *(#[trigger] flatten_opts(s)[k]) == s[q]->Some_0
    decreases s.len()
{
    if q == s.len() - 1 {
        let r = flatten_opts(s.drop_last());
        assert(flatten_opts(s)[r.len() as int] == &s[q]->Some_0);
    } else {
        lemma_flatten_member(s.drop_last(), q);
        let k = choose|k: int| 0 <= k < flatten_opts(s.drop_last()).len() && *(#[trigger] flatten_opts(s.drop_last())[k]) == s.drop_last()[q]->Some_0;
        assert(flatten_opts(s)[k] == flatten_opts(s.drop_last())[k]);
    }
}
// every element of the flattened sequence is the payload of some Some item
pub proof fn lemma_flatten_origin<'a, T>(s: Seq<&'a Option<T>>, k: int)
    requires 0 <= k < flatten_opts(s).len()
    ensures exists|q: int| 0 <= q < s.len() && (#[trigger] *s[q]) is Some && flatten_opts(s)[k] == &(s[q]->Some_0)
    decreases s.len()
{
    if s.len() > 0 {
        let r = flatten_opts(s.drop_last());
        match s.last() {
            Some(x) => {
                if k == r.len() { assert(*s[s.len() - 1] is Some && flatten_opts(s)[k] == &(s[s.len() - 1]->Some_0)); }
                else {
                    lemma_flatten_origin(s.drop_last(), k);
                    let q = choose|q: int| 0 <= q < s.drop_last().len() && (#[trigger] *s.drop_last()[q]) is Some && r[k] == &(s.drop_last()[q]->Some_0);
                    assert(*s[q] is Some && flatten_opts(s)[k] == &(s[q]->Some_0));
                }
            }
            None => {
                lemma_flatten_origin(s.drop_last(), k);
                let q = choose|q: int| 0 <= q < s.drop_last().len() && (#[trigger] *s.drop_last()[q]) is Some && r[k] == &(s.drop_last()[q]->Some_0);
                assert(*s[q] is Some && flatten_opts(s)[k] == &(s[q]->Some_0));
            }
        }
    }
}
// Iterator::flatten over an iterator of &Option<T>: yields the payloads of the Some items, in order
#[verifier::external_body]
pub fn v_flatten<'a, T, I: Iterator<Item = &'a Option<T>>>(i: I) -> (r: VSeqIter<&'a T>)
    ensures r.items() == flatten_opts(i.remaining())
{ unimplemented!() }
pub open spec fn promise_fits(v: u64, n: usize) -> bool { n < 64 ==> (v >> n) == 0 }
pub open spec fn promise_ok(p: Option<u64>, n: usize) -> bool { p is Some ==> promise_fits(p->Some_0, n) }
pub trait VShr<R> {
    type Out;
    spec fn shr_ok(self, r: R) -> bool;
    spec fn shr_val(self, r: R) -> Self::Out;
    fn v_shr(self, r: R) -> (o: Self::Out) requires self.shr_ok(r) ensures o == self.shr_val(r);
}
impl VShr<usize> for u64 {
    type Out = u64;
    open spec fn shr_ok(self, r: usize) -> bool { r < 64 }
    open spec fn shr_val(self, r: usize) -> u64 { self >> r }
    fn v_shr(self, r: usize) -> (o: u64) { self >> r }
}
impl<'a> VShr<usize> for &'a u64 {
    type Out = u64;
    open spec fn shr_ok(self, r: usize) -> bool { r < 64 }
    open spec fn shr_val(self, r: usize) -> u64 { *self >> r }
    fn v_shr(self, r: usize) -> (o: u64) { *self >> r }
}
pub fn v_shr<A: VShr<B>, B>(a: A, b: B) -> (o: A::Out) requires a.shr_ok(b) ensures o == a.shr_val(b) { VShr::v_shr(a, b) }
impl VShr<u32> for u64 {
    type Out = u64;
    open spec fn shr_ok(self, r: u32) -> bool { r < 64 }
    open spec fn shr_val(self, r: u32) -> u64 { self >> r }
    fn v_shr(self, r: u32) -> (o: u64) { self >> r }
}
