// ===================== abstract scalar field =====================
#[verifier::external_body]
#[derive(Clone, Copy)]
pub struct Scalar { b: [u8; 32] }
#[verifier::external_body]
pub struct P { b: [u8; 32] }
#[verifier::external_body]
#[derive(Clone, Copy)]
pub struct CP { b: [u8; 32] }

pub uninterp spec fn scalar_bytes(s: Scalar) -> Seq<u8>;
pub uninterp spec fn wide_reduce(b: Seq<u8>) -> Scalar;
pub uninterp spec fn s_add(a: Scalar, b: Scalar) -> Scalar;
pub uninterp spec fn s_sub(a: Scalar, b: Scalar) -> Scalar;
pub uninterp spec fn s_mul(a: Scalar, b: Scalar) -> Scalar;
pub uninterp spec fn s_neg(a: Scalar) -> Scalar;
pub uninterp spec fn s_inv(a: Scalar) -> Scalar;
pub uninterp spec fn s_of_nat(n: nat) -> Scalar;
pub uninterp spec fn s_pow(a: Scalar, n: nat) -> Scalar;
pub uninterp spec fn p_add(a: P, b: P) -> P;
pub uninterp spec fn p_mul_r(a: P, b: Scalar) -> P;
pub uninterp spec fn p_id() -> P;
pub uninterp spec fn msm(s: Seq<Scalar>, p: Seq<P>) -> P;

// product of the inverses of a sequence, left to right (return value of Scalar::batch_invert)
pub open spec fn batch_inv_prod(v: Seq<Scalar>) -> Scalar
    decreases v.len()
{ if v.len() == 0 { Scalar::ONE } else { s_mul(batch_inv_prod(v.drop_last()), s_inv(v.last())) } }
impl Scalar {
    #[verifier::external_body]
    pub const ZERO: Scalar = (Scalar { b: [0u8; 32] });
    #[verifier::external_body]
    pub const ONE: Scalar = (Scalar { b: [0u8; 32] });
    #[verifier::external_body]
    pub fn invert(&self) -> (r: Scalar) ensures r == s_inv(*self) { unimplemented!() }
    #[verifier::external_body]
    pub fn pow_vartime(&self, e: [u64; 1]) -> (r: Scalar) ensures r == s_pow(*self, e[0] as nat) { unimplemented!() }
    #[verifier::external_body]
    pub fn batch_invert(v: &mut Vec<Scalar>) -> (r: Scalar)
        ensures final(v)@.len() == old(v)@.len(),
            forall|i: int| 0 <= i < old(v)@.len() ==> final(v)@[i] == s_inv(old(v)@[i]),
            r == batch_inv_prod(old(v)@),
    { unimplemented!() }
    #[verifier::external_body]
    pub fn to_bytes(&self) -> (r: [u8; 32]) ensures r@ == scalar_bytes(*self) { unimplemented!() }
    #[verifier::external_body]
    pub fn as_bytes(&self) -> (r: &[u8; 32]) ensures r@ == scalar_bytes(*self) { unimplemented!() }
    #[verifier::external_body]
    pub fn from_bytes_mod_order_wide(b: &[u8; 64]) -> (r: Scalar) ensures r == wide_reduce(b@) { unimplemented!() }
}
impl From<u64> for Scalar {
    #[verifier::external_body]
    fn from(x: u64) -> (r: Scalar) ensures r == s_of_nat(x as nat) { unimplemented!() }
}
impl From<u8> for Scalar {
    #[verifier::external_body]
    fn from(x: u8) -> (r: Scalar) ensures r == s_of_nat(x as nat) { unimplemented!() }
}
impl vstd::std_specs::cmp::PartialEqSpecImpl for Scalar {
    open spec fn obeys_eq_spec() -> bool { true }
    open spec fn eq_spec(&self, other: &Scalar) -> bool { *self == *other }
}
impl PartialEq for Scalar {
    #[verifier::external_body]
    fn eq(&self, other: &Scalar) -> (r: bool) { unimplemented!() }
}
impl vstd::std_specs::cmp::PartialEqSpecImpl for P {
    open spec fn obeys_eq_spec() -> bool { true }
    open spec fn eq_spec(&self, other: &P) -> bool { *self == *other }
}
impl PartialEq for P {
    #[verifier::external_body]
    fn eq(&self, other: &P) -> (r: bool) { unimplemented!() }
}
impl Clone for P {
    #[verifier::external_body]
    fn clone(&self) -> (r: P) ensures r == *self { unimplemented!() }
}

// curve25519-dalek: `impl Default for Scalar` returns Scalar::ZERO
impl Default for Scalar {
    #[verifier::external_body]
    fn default() -> (r: Scalar) ensures r == Scalar::ZERO { unimplemented!() }
}
