#![feature(allocator_api)]
#![allow(unused_imports, dead_code, unused_variables, unused_mut, non_snake_case)]
use vstd::prelude::*;
use vstd::string::*;
use vstd::std_specs::iter::{IteratorSpec, IteratorSpecImpl};
use core::convert::{TryFrom, TryInto};
use std::sync::Arc;
use core::ops::Shr;
use core::marker::PhantomData;
verus! {
global size_of usize == 8;

