# generate operator impls for abstract Scalar and P
out=[]
def binop(tr, meth, specfn, lhs, rhs, outty, lhs_deref, rhs_deref):
    # lhs/rhs are type strings like "Scalar" or "&'a Scalar"
    lts=[]
    if "'a" in lhs: lts.append("'a")
    if "'b" in rhs: lts.append("'b")
    g = "<"+",".join(lts)+">" if lts else ""
    out.append(f"""impl{g} vstd::std_specs::ops::{tr}SpecImpl<{rhs}> for {lhs} {{
    open spec fn obeys_{meth}_spec() -> bool {{ true }}
    open spec fn {meth}_req(self, rhs: {rhs}) -> bool {{ true }}
    open spec fn {meth}_spec(self, rhs: {rhs}) -> {outty} {{ {specfn}({lhs_deref}self, {rhs_deref}rhs) }}
}}
impl{g} core::ops::{tr}<{rhs}> for {lhs} {{
    type Output = {outty};
    #[verifier::external_body]
    fn {meth}(self, rhs: {rhs}) -> (r: {outty}) {{ unimplemented!() }}
}}""")
for tr,meth,specfn in [("Add","add","s_add"),("Sub","sub","s_sub"),("Mul","mul","s_mul")]:
    for lhs,ld in [("Scalar",""),("&'a Scalar","*")]:
        for rhs,rd in [("Scalar",""),("&'b Scalar","*")]:
            binop(tr,meth,specfn,lhs,rhs,"Scalar",ld,rd)
# P ops: &P * Scalar, &P * &Scalar ; P + P ; &P + &P
binop("Mul","mul","p_mul_r","&'a P","Scalar","P","*","")
binop("Mul","mul","p_mul_r","&'a P","&'b Scalar","P","*","*")
binop("Add","add","p_add","P","P","P","","")
binop("Add","add","p_add","&'a P","&'b P","P","*","*")
def assignop(tr, meth, specfn, lhs, rhs, rd):
    lts=[]
    if "'b" in rhs: lts.append("'b")
    g = "<"+",".join(lts)+">" if lts else ""
    out.append(f"""impl{g} vstd::std_specs::ops::{tr}SpecImpl<{rhs}> for {lhs} {{
    open spec fn obeys_{meth}_spec() -> bool {{ true }}
    open spec fn {meth}_req(self, rhs: {rhs}) -> bool {{ true }}
    open spec fn {meth}_spec(self, rhs: {rhs}) -> {lhs} {{ {specfn}(self, {rd}rhs) }}
}}
impl{g} core::ops::{tr}<{rhs}> for {lhs} {{
    #[verifier::external_body]
    fn {meth}(&mut self, rhs: {rhs}) {{ unimplemented!() }}
}}""")
for tr,meth,specfn in [("AddAssign","add_assign","s_add"),("SubAssign","sub_assign","s_sub"),("MulAssign","mul_assign","s_mul")]:
    for rhs,rd in [("Scalar",""),("&'b Scalar","*")]:
        assignop(tr,meth,specfn,"Scalar",rhs,rd)
assignop("AddAssign","add_assign","p_add","P","P","")
# Neg
for lhs,ld,g in [("Scalar","",""),("&'a Scalar","*","<'a>")]:
    out.append(f"""impl{g} vstd::std_specs::ops::NegSpecImpl for {lhs} {{
    open spec fn obeys_neg_spec() -> bool {{ true }}
    open spec fn neg_req(self) -> bool {{ true }}
    open spec fn neg_spec(self) -> Scalar {{ s_neg({ld}self) }}
}}
impl{g} core::ops::Neg for {lhs} {{
    type Output = Scalar;
    #[verifier::external_body]
    fn neg(self) -> (r: Scalar) {{ unimplemented!() }}
}}""")
open('ops_gen.rs','w').write("\n".join(out)+"\n")
