// ===================== curve25519-dalek's Ristretto types as seen by the forwarding impls of src/ristretto.rs (unit ristretto_glue only) =====================
pub uninterp spec fn dalek_decompress(b: Seq<u8>) -> Option<RistrettoPoint>;
pub uninterp spec fn dalek_compress(p: RistrettoPoint) -> Seq<u8>;
pub uninterp spec fn dalek_from_uniform(b: Seq<u8>) -> RistrettoPoint;
pub struct CompressedRistretto(pub [u8; 32]);
#[verifier::external_body]
pub struct RistrettoPoint { x: u8 }
impl CompressedRistretto {
    pub fn dalek_as_bytes(&self) -> (r: &[u8; 32]) ensures *r == self.0 { &self.0 }
    #[verifier::external_body]
    pub fn dalek_decompress(&self) -> (r: Option<RistrettoPoint>) ensures r == dalek_decompress(self.0@) { unimplemented!() }
}
impl RistrettoPoint {
    #[verifier::external_body]
    pub fn dalek_compress(&self) -> (r: CompressedRistretto) ensures r.0@ == dalek_compress(*self) { unimplemented!() }
    #[verifier::external_body]
    pub fn dalek_from_uniform_bytes(b: &[u8; 64]) -> (r: RistrettoPoint) ensures r == dalek_from_uniform(b@) { unimplemented!() }
}
