// ===================== repo traits (abstracted) =====================
pub trait FixedBytesRepr {
    spec fn bytes_view(&self) -> Seq<u8>;
    fn as_fixed_bytes(&self) -> (r: &[u8; 32]) ensures r@ == self.bytes_view();
    fn from_fixed_bytes(bytes: [u8; 32]) -> (r: Self) where Self: Sized ensures r.bytes_view() == bytes@;
}
pub trait IsIdentity {
    spec fn is_identity_spec(&self) -> bool;
    fn is_identity(&self) -> (r: bool) ensures r == self.is_identity_spec();
}
pub trait Compressable {
    type Compressed: Copy;
    fn compress(&self) -> Self::Compressed;
}
pub trait Precomputable { type Precomputation; }

pub uninterp spec fn cp_bytes(c: CP) -> Seq<u8>;
pub uninterp spec fn cp_is_id(c: CP) -> bool;
pub uninterp spec fn cp_decompress(c: CP) -> Option<P>;
impl FixedBytesRepr for CP {
    open spec fn bytes_view(&self) -> Seq<u8> { cp_bytes(*self) }
    #[verifier::external_body]
    fn as_fixed_bytes(&self) -> (r: &[u8; 32]) { unimplemented!() }
    #[verifier::external_body]
    fn from_fixed_bytes(bytes: [u8; 32]) -> Self { unimplemented!() }
}
impl IsIdentity for CP {
    open spec fn is_identity_spec(&self) -> bool { cp_is_id(*self) }
    #[verifier::external_body]
    fn is_identity(&self) -> (r: bool) { unimplemented!() }
}
impl CP {
    #[verifier::external_body]
    pub fn decompress(&self) -> (r: Option<P>) ensures r == cp_decompress(*self) { unimplemented!() }
}
pub uninterp spec fn p_compress(p: P) -> CP;
impl Compressable for P {
    type Compressed = CP;
    #[verifier::external_body]
    fn compress(&self) -> (r: CP) ensures r == p_compress(*self) { unimplemented!() }
}
#[verifier::external_body]
pub struct Precomp { x: u8 }
impl Precomputable for P { type Precomputation = Precomp; }
impl P {
    #[verifier::external_body]
    pub fn identity() -> (r: P) ensures r == p_id() { unimplemented!() }
}

