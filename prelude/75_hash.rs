// ===================== hash models (blake2 / byte encodings) =====================
#[verifier::external_body]
pub struct Blake2bMac512 { x: u8 }
pub uninterp spec fn blake2b_mac(key: Seq<u8>, salt: Seq<u8>, persona: Seq<u8>) -> Seq<u8>;
impl Blake2bMac512 {
    pub uninterp spec fn out(&self) -> Seq<u8>;
    #[verifier::external_body]
    pub fn new_with_salt_and_personal(key: &[u8], salt: &[u8], persona: &[u8]) -> (r: Result<Blake2bMac512, ()>)
        ensures r is Ok <==> (key@.len() <= 64 && salt@.len() <= 16 && persona@.len() <= 16),
            r is Ok ==> r->Ok_0.out() == blake2b_mac(key@, salt@, persona@),
            (r is Ok && salt@.len() == 0) ==> r->Ok_0.out() == blake2b_mac(key@, Seq::empty(), persona@)
    { unimplemented!() }
}
pub uninterp spec fn le32(x: u32) -> Seq<u8>;
pub trait VToLeBytes { type Out; fn v_to_le_bytes(self) -> Self::Out; }
impl VToLeBytes for u32 { type Out = [u8; 4];
   #[verifier::external_body] fn v_to_le_bytes(self) -> (r: [u8; 4]) ensures r@ == le32(self) { unimplemented!() } }
impl VToLeBytes for u64 { type Out = [u8; 8];
   #[verifier::external_body] fn v_to_le_bytes(self) -> (r: [u8; 8]) ensures r@ == le64(self) { unimplemented!() } }
pub broadcast axiom fn ax_scalar_bytes_len(s: Scalar) ensures #[trigger] scalar_bytes(s).len() == 32;
pub broadcast axiom fn ax_le32_len(x: u32) ensures #[trigger] le32(x).len() == 4;
pub broadcast axiom fn ax_le64_len(x: u64) ensures #[trigger] le64(x).len() == 8;
#[verifier::external_body]
pub struct HashOut64 { x: u8 }
impl HashOut64 {
    pub uninterp spec fn bytes(&self) -> Seq<u8>;
    #[verifier::external_body]
    pub fn as_slice(&self) -> (r: &[u8]) ensures r@ == self.bytes(), r@.len() == 64 { unimplemented!() }
    // GenericArray<u8, U64> -> [u8; 64]
    #[verifier::external_body]
    pub fn into(self) -> (r: [u8; 64]) ensures r@ == self.bytes() { unimplemented!() }
}
impl Blake2bMac512 {
    // digest::FixedOutput::finalize_fixed: the 64-byte MAC value
    #[verifier::external_body]
    pub fn finalize_fixed(self) -> (r: HashOut64) ensures r.bytes() == self.out(), r.bytes().len() == 64 { unimplemented!() }
}
impl Scalar {
    // curve25519-dalek Scalar::random: 64 RNG bytes reduced mod l; one draw from the RNG stream
    #[verifier::external_body]
    pub fn random<R: CryptoRngCore>(rng: &mut R) -> (r: Scalar)
        ensures r == rng_scalar(old(rng).rng_state()), final(rng).rng_state() == R::rng_step(old(rng).rng_state())
    { unimplemented!() }
}
