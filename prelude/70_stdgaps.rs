// ===================== std gaps =====================
pub assume_specification [usize::checked_shl] (x: usize, s: u32) -> (r: Option<usize>)
    ensures s >= 64 ==> r is None, s < 64 ==> r == Some(((x as nat * vstd::arithmetic::power2::pow2(s as nat)) % 0x1_0000_0000_0000_0000nat) as usize);
pub uninterp spec fn spec_ilog2(x: usize) -> u32;
pub assume_specification [usize::ilog2] (x: usize) -> (r: u32)
    requires x > 0
    ensures vstd::arithmetic::power2::pow2(r as nat) <= x < 2 * vstd::arithmetic::power2::pow2(r as nat), r < 64, r == spec_ilog2(x);
pub assume_specification [usize::checked_ilog2] (x: usize) -> (r: Option<u32>)
    ensures x == 0 ==> r is None, x > 0 ==> r is Some && vstd::arithmetic::power2::pow2(r->Some_0 as nat) <= x < 2 * vstd::arithmetic::power2::pow2(r->Some_0 as nat) && r->Some_0 < 64 && r->Some_0 == spec_ilog2(x);
pub assume_specification<T, A: core::alloc::Allocator, I: IntoIterator<Item = T>> [<Vec<T, A> as Extend<T>>::extend] (v: &mut Vec<T, A>, it: I)
    ensures final(v)@ == old(v)@ + into_iter_seq(it);
pub broadcast axiom fn ax_into_iter_seq_vec<T>(v: Vec<T>) ensures #[trigger] into_iter_seq(v) == v@;
pub broadcast axiom fn ax_into_iter_seq_iter<I: Iterator>(i: I) ensures #[trigger] into_iter_seq(i) == i.remaining();
pub assume_specification<'a, T> [<&'a mut [T] as core::iter::IntoIterator>::into_iter] (s: &'a mut [T]) -> (r: core::slice::IterMut<'a, T>)
    ensures IteratorSpec::remaining(&r).len() == old(s)@.len(),
        IteratorSpec::obeys_prophetic_iter_laws(&r), IteratorSpec::will_return_none(&r),
        forall|k: int| 0 <= k < old(s)@.len() ==> *(#[trigger] IteratorSpec::remaining(&r)[k]) == old(s)@[k],
        final(s)@.len() == old(s)@.len(),
        forall|k: int| 0 <= k < old(s)@.len() ==> #[trigger] final(s)@[k] == *final(IteratorSpec::remaining(&r)[k]);
// trusted: elements of an IterMut that the enclosing zip never yields keep their value (Rust aliasing rules)
pub broadcast axiom fn ax_zip_snd_itermut_unyielded<'a, A: Iterator, T>(z: core::iter::Zip<A, core::slice::IterMut<'a, T>>, k: int)
    requires IteratorSpec::remaining(&z).len() <= k < IteratorSpec::remaining(&vstd::std_specs::iter::zip_iter_snd(z)).len()
    ensures *final(#[trigger] IteratorSpec::remaining(&vstd::std_specs::iter::zip_iter_snd(z))[k]) == *IteratorSpec::remaining(&vstd::std_specs::iter::zip_iter_snd(z))[k];
#[verifier::prophetic]
pub open spec fn rem<I: Iterator>(i: I) -> Seq<I::Item> { IteratorSpec::remaining(&i) }
pub open spec fn zf<A: Iterator, B: Iterator>(z: core::iter::Zip<A, B>) -> A { vstd::std_specs::iter::zip_iter_fst(z) }
pub open spec fn zs<A: Iterator, B: Iterator>(z: core::iter::Zip<A, B>) -> B { vstd::std_specs::iter::zip_iter_snd(z) }
pub assume_specification<T, E, U, F: FnOnce(T) -> Result<U, E>> [Result::<T, E>::and_then] (r: Result<T, E>, f: F) -> (o: Result<U, E>)
    requires r is Ok ==> f.requires((r->Ok_0,))
    ensures r is Err ==> (o is Err && o->Err_0 == r->Err_0), r is Ok ==> f.ensures((r->Ok_0,), o);
pub broadcast axiom fn ax_into_iter_seq_slice<'a, T>(s: &'a [T]) ensures (#[trigger] into_iter_seq(s)).len() == s@.len(), forall|k: int| 0 <= k < s@.len() ==> *(#[trigger] into_iter_seq(s)[k]) == s@[k];
pub broadcast axiom fn ax_into_iter_seq_arr2<T>(s: [T; 2]) ensures #[trigger] into_iter_seq(s).len() == 2;
#[verifier::prophetic]
pub uninterp spec fn into_iter_len<I: IntoIterator>(i: I) -> nat;
pub broadcast axiom fn ax_into_iter_len_iter<I: Iterator>(i: I) ensures #[trigger] into_iter_len(i) == i.remaining().len();
pub broadcast axiom fn ax_into_iter_len_arr2<T>(s: [T; 2]) ensures #[trigger] into_iter_len(s) == 2;
pub assume_specification [usize::is_power_of_two] (x: usize) -> (r: bool)
    ensures r == vstd::arithmetic::power2::is_pow2(x as int);
pub assume_specification<T: Clone> [<[T]>::to_vec] (s: &[T]) -> (r: Vec<T>)
    ensures r@ == s@;
// R-FORMAT target: the text of a formatted message occurs in no property
#[verifier::external_body]
pub fn v_format() -> (r: String) { unimplemented!() }
pub broadcast axiom fn ax_into_iter_seq_arr8(s: [u8; 8]) ensures #[trigger] into_iter_seq(s) == s@;
// R-OPAQUE target (capacity hint of a with_capacity call; value used nowhere else)
#[verifier::external_body]
pub fn opaque_size<T>(w: &T) -> (r: usize) { unimplemented!() }
pub open spec fn deref_seq<T>(s: Seq<&T>) -> Seq<T> { s.map_values(|x: &T| *x) }
pub assume_specification<'a, T: Copy + 'a, A: core::alloc::Allocator, I: IntoIterator<Item = &'a T>> [<Vec<T, A> as Extend<&'a T>>::extend] (v: &mut Vec<T, A>, it: I)
    ensures final(v)@ == old(v)@ + deref_seq(into_iter_seq(it));
pub broadcast axiom fn ax_into_iter_seq_arr32ref<'a>(s: &'a [u8; 32]) ensures deref_seq(#[trigger] into_iter_seq(s)) == s@;
// u32::leading_zeros: a value below 2^31 has at least one leading zero bit (vstd's own axiom about the closed specification function could not be put to use)
pub axiom fn ax_lz32_below_top_bit(x: u32)
    requires x < 0x8000_0000u32
    ensures vstd::std_specs::bits::u32_leading_zeros(x) >= 1;
