// ===================== sha3 (external): SHAKE256 as an extendable-output function, SHA3-512 =====================
#[verifier::external_body]
pub struct Shake256 { b: Vec<u8> }
pub struct Shake256ReaderCore;
#[verifier::external_body]
#[verifier::reject_recursive_types(T)]
pub struct XofReaderCoreWrapper<T> { b: Vec<u8>, t: PhantomData<T> }
impl Shake256 {
    pub uninterp spec fn absorbed(&self) -> Seq<u8>;
    #[verifier::external_body]
    pub fn default() -> (r: Shake256) ensures r.absorbed() == Seq::<u8>::empty() { unimplemented!() }
    // digest::Update::update
    #[verifier::external_body]
    pub fn update(&mut self, data: &[u8]) ensures final(self).absorbed() == old(self).absorbed() + data@ { unimplemented!() }
    // digest::Update::chain
    #[verifier::external_body]
    pub fn chain(self, data: &[u8]) -> (r: Shake256) ensures r.absorbed() == self.absorbed() + data@ { unimplemented!() }
    // digest::ExtendableOutput::finalize_xof
    #[verifier::external_body]
    pub fn finalize_xof(self) -> (r: XofReaderCoreWrapper<Shake256ReaderCore>) ensures r.xof_input() == self.absorbed(), r.xof_pos() == 0 { unimplemented!() }
}
impl<T> XofReaderCoreWrapper<T> {
    pub uninterp spec fn xof_input(&self) -> Seq<u8>;
    pub uninterp spec fn xof_pos(&self) -> nat;
    // digest::XofReader::read on a 64-byte buffer: the next 64 bytes of the output stream
    #[verifier::external_body]
    pub fn read(&mut self, buf: &mut [u8; 64])
        ensures final(buf)@ == shake256_xof(old(self).xof_input(), old(self).xof_pos(), 64),
            final(self).xof_input() == old(self).xof_input(), final(self).xof_pos() == old(self).xof_pos() + 64
    { unimplemented!() }
}
#[verifier::external_body]
pub struct Sha3_512 { b: Vec<u8> }
#[verifier::external_body]
pub struct Sha3Output { b: [u8; 64] }
impl Sha3_512 {
    pub uninterp spec fn absorbed(&self) -> Seq<u8>;
    #[verifier::external_body]
    pub fn default() -> (r: Sha3_512) ensures r.absorbed() == Seq::<u8>::empty() { unimplemented!() }
    #[verifier::external_body]
    pub fn update(&mut self, data: &[u8]) ensures final(self).absorbed() == old(self).absorbed() + data@ { unimplemented!() }
    #[verifier::external_body]
    pub fn finalize(self) -> (r: Sha3Output) ensures r.bytes() == sha3_512(self.absorbed()) { unimplemented!() }
}
// other members of the sha3 crate's family with the same interface (a different function: named so that a swap is visible to the contracts)
pub uninterp spec fn keccak_512(input: Seq<u8>) -> Seq<u8>;
#[verifier::external_body]
pub struct Keccak512 { b: Vec<u8> }
impl Keccak512 {
    pub uninterp spec fn absorbed(&self) -> Seq<u8>;
    #[verifier::external_body]
    pub fn default() -> (r: Keccak512) ensures r.absorbed() == Seq::<u8>::empty() { unimplemented!() }
    #[verifier::external_body]
    pub fn update(&mut self, data: &[u8]) ensures final(self).absorbed() == old(self).absorbed() + data@ { unimplemented!() }
    #[verifier::external_body]
    pub fn finalize(self) -> (r: Sha3Output) ensures r.bytes() == keccak_512(self.absorbed()) { unimplemented!() }
}
impl Sha3Output {
    pub uninterp spec fn bytes(&self) -> Seq<u8>;
    // GenericArray<u8, U64> -> [u8; 64]
    #[verifier::external_body]
    pub fn into(self) -> (r: [u8; 64]) ensures r@ == self.bytes() { unimplemented!() }
}
impl P {
    // FromUniformBytes::from_uniform_bytes (dalek: RistrettoPoint::from_uniform_bytes)
    #[verifier::external_body]
    pub fn from_uniform_bytes(b: &[u8; 64]) -> (r: P) ensures r == p_from_uniform(b@) { unimplemented!() }
}
impl<P> GeneratorsChain<P> {
    pub open spec fn input(&self) -> Seq<u8> { self.reader.xof_input() }
    pub open spec fn pos(&self) -> nat { self.reader.xof_pos() }
}
