// ===================== generator derivation support (sha3 SHAKE256 model, byteorder, precomputation) =====================
pub uninterp spec fn shake256_xof(input: Seq<u8>, off: nat, n: nat) -> Seq<u8>;      // bytes [off, off+n) of SHAKE256(input)
pub uninterp spec fn sha3_512(input: Seq<u8>) -> Seq<u8>;                               // SHA3-512
pub uninterp spec fn p_from_uniform(b: Seq<u8>) -> P;                                  // FromUniformBytes::from_uniform_bytes
// the j-th point of the generator chain started from `label`
pub open spec fn chain_point(label: Seq<u8>, j: nat) -> P { p_from_uniform(shake256_xof(b"GeneratorsChain"@ + label, 64 * j, 64)) }
pub open spec fn gens_label(c: u8, party: u32) -> Seq<u8> { seq![c] + le32(party) }
// GeneratorsChain::<P>::new(&label).take(n): the first n points of the chain (site-specific rewrite R-CHAINTAKE; the real
// GeneratorsChain::new / next are under contract against the SHAKE model in unit gens_new)
#[verifier::external_body]
pub fn v_chain_take(label: &[u8], n: usize) -> (r: VSeqIter<P>)
    ensures r.items() == Seq::new(n as nat, |j: int| chain_point(label@, j as nat))
{ unimplemented!() }
pub broadcast axiom fn ax_into_iter_seq_mutref_vseq<'a, T>(i: &'a mut VSeqIter<T>) ensures #[trigger] into_iter_seq(i) == old(i).items();
// byteorder::LittleEndian::write_u32(&mut label[1..5], n)  (site-specific rewrite: Verus has no &mut range indexing)
#[verifier::external_body]
pub fn v_write_u32_at(buf: &mut [u8; 5], at: usize, n: u32)
    requires at == 1
    ensures final(buf)@ == seq![old(buf)@[0]] + le32(n)
{ unimplemented!() }
// v.iter().flat_map(|x| x.iter()) over a Vec<Vec<T>> (site-specific rewrite R-FLATVEC): all inner elements, outer-major
pub open spec fn flat_refs<'a, T>(v: Seq<Vec<T>>) -> Seq<&'a T>
    decreases v.len()
{ if v.len() == 0 { Seq::empty() } else { flat_refs(v.drop_last()) + Seq::new(v.last()@.len(), |j: int| &v.last()@[j]) } }
pub trait VFlatVecs<T> { fn v_flat_vecs<'a>(&'a self) -> (r: VSeqIter<&'a T>); }
impl<T> VFlatVecs<T> for Vec<Vec<T>> {
    #[verifier::external_body]
    fn v_flat_vecs<'a>(&'a self) -> (r: VSeqIter<&'a T>) ensures r.items() == flat_refs::<T>(self@) { unimplemented!() }
}
impl Precomp {
    // curve25519-dalek VartimePrecomputedMultiscalarMul::new: the table holds the points yielded by the iterator, in order
    #[verifier::external_body]
    pub fn new<'a, I: Iterator<Item = &'a P>>(it: I) -> (r: Precomp) ensures precomp_table(r) == deref_p(it.remaining()) { unimplemented!() }
}
