impl vstd::std_specs::ops::AddSpecImpl<Scalar> for Scalar {
    open spec fn obeys_add_spec() -> bool { true }
    open spec fn add_req(self, rhs: Scalar) -> bool { true }
    open spec fn add_spec(self, rhs: Scalar) -> Scalar { s_add(self, rhs) }
}
impl core::ops::Add<Scalar> for Scalar {
    type Output = Scalar;
    #[verifier::external_body]
    fn add(self, rhs: Scalar) -> (r: Scalar) { unimplemented!() }
}
impl<'b> vstd::std_specs::ops::AddSpecImpl<&'b Scalar> for Scalar {
    open spec fn obeys_add_spec() -> bool { true }
    open spec fn add_req(self, rhs: &'b Scalar) -> bool { true }
    open spec fn add_spec(self, rhs: &'b Scalar) -> Scalar { s_add(self, *rhs) }
}
impl<'b> core::ops::Add<&'b Scalar> for Scalar {
    type Output = Scalar;
    #[verifier::external_body]
    fn add(self, rhs: &'b Scalar) -> (r: Scalar) { unimplemented!() }
}
impl<'a> vstd::std_specs::ops::AddSpecImpl<Scalar> for &'a Scalar {
    open spec fn obeys_add_spec() -> bool { true }
    open spec fn add_req(self, rhs: Scalar) -> bool { true }
    open spec fn add_spec(self, rhs: Scalar) -> Scalar { s_add(*self, rhs) }
}
impl<'a> core::ops::Add<Scalar> for &'a Scalar {
    type Output = Scalar;
    #[verifier::external_body]
    fn add(self, rhs: Scalar) -> (r: Scalar) { unimplemented!() }
}
impl<'a,'b> vstd::std_specs::ops::AddSpecImpl<&'b Scalar> for &'a Scalar {
    open spec fn obeys_add_spec() -> bool { true }
    open spec fn add_req(self, rhs: &'b Scalar) -> bool { true }
    open spec fn add_spec(self, rhs: &'b Scalar) -> Scalar { s_add(*self, *rhs) }
}
impl<'a,'b> core::ops::Add<&'b Scalar> for &'a Scalar {
    type Output = Scalar;
    #[verifier::external_body]
    fn add(self, rhs: &'b Scalar) -> (r: Scalar) { unimplemented!() }
}
impl vstd::std_specs::ops::SubSpecImpl<Scalar> for Scalar {
    open spec fn obeys_sub_spec() -> bool { true }
    open spec fn sub_req(self, rhs: Scalar) -> bool { true }
    open spec fn sub_spec(self, rhs: Scalar) -> Scalar { s_sub(self, rhs) }
}
impl core::ops::Sub<Scalar> for Scalar {
    type Output = Scalar;
    #[verifier::external_body]
    fn sub(self, rhs: Scalar) -> (r: Scalar) { unimplemented!() }
}
impl<'b> vstd::std_specs::ops::SubSpecImpl<&'b Scalar> for Scalar {
    open spec fn obeys_sub_spec() -> bool { true }
    open spec fn sub_req(self, rhs: &'b Scalar) -> bool { true }
    open spec fn sub_spec(self, rhs: &'b Scalar) -> Scalar { s_sub(self, *rhs) }
}
impl<'b> core::ops::Sub<&'b Scalar> for Scalar {
    type Output = Scalar;
    #[verifier::external_body]
    fn sub(self, rhs: &'b Scalar) -> (r: Scalar) { unimplemented!() }
}
impl<'a> vstd::std_specs::ops::SubSpecImpl<Scalar> for &'a Scalar {
    open spec fn obeys_sub_spec() -> bool { true }
    open spec fn sub_req(self, rhs: Scalar) -> bool { true }
    open spec fn sub_spec(self, rhs: Scalar) -> Scalar { s_sub(*self, rhs) }
}
impl<'a> core::ops::Sub<Scalar> for &'a Scalar {
    type Output = Scalar;
    #[verifier::external_body]
    fn sub(self, rhs: Scalar) -> (r: Scalar) { unimplemented!() }
}
impl<'a,'b> vstd::std_specs::ops::SubSpecImpl<&'b Scalar> for &'a Scalar {
    open spec fn obeys_sub_spec() -> bool { true }
    open spec fn sub_req(self, rhs: &'b Scalar) -> bool { true }
    open spec fn sub_spec(self, rhs: &'b Scalar) -> Scalar { s_sub(*self, *rhs) }
}
impl<'a,'b> core::ops::Sub<&'b Scalar> for &'a Scalar {
    type Output = Scalar;
    #[verifier::external_body]
    fn sub(self, rhs: &'b Scalar) -> (r: Scalar) { unimplemented!() }
}
impl vstd::std_specs::ops::MulSpecImpl<Scalar> for Scalar {
    open spec fn obeys_mul_spec() -> bool { true }
    open spec fn mul_req(self, rhs: Scalar) -> bool { true }
    open spec fn mul_spec(self, rhs: Scalar) -> Scalar { s_mul(self, rhs) }
}
impl core::ops::Mul<Scalar> for Scalar {
    type Output = Scalar;
    #[verifier::external_body]
    fn mul(self, rhs: Scalar) -> (r: Scalar) { unimplemented!() }
}
impl<'b> vstd::std_specs::ops::MulSpecImpl<&'b Scalar> for Scalar {
    open spec fn obeys_mul_spec() -> bool { true }
    open spec fn mul_req(self, rhs: &'b Scalar) -> bool { true }
    open spec fn mul_spec(self, rhs: &'b Scalar) -> Scalar { s_mul(self, *rhs) }
}
impl<'b> core::ops::Mul<&'b Scalar> for Scalar {
    type Output = Scalar;
    #[verifier::external_body]
    fn mul(self, rhs: &'b Scalar) -> (r: Scalar) { unimplemented!() }
}
impl<'a> vstd::std_specs::ops::MulSpecImpl<Scalar> for &'a Scalar {
    open spec fn obeys_mul_spec() -> bool { true }
    open spec fn mul_req(self, rhs: Scalar) -> bool { true }
    open spec fn mul_spec(self, rhs: Scalar) -> Scalar { s_mul(*self, rhs) }
}
impl<'a> core::ops::Mul<Scalar> for &'a Scalar {
    type Output = Scalar;
    #[verifier::external_body]
    fn mul(self, rhs: Scalar) -> (r: Scalar) { unimplemented!() }
}
impl<'a,'b> vstd::std_specs::ops::MulSpecImpl<&'b Scalar> for &'a Scalar {
    open spec fn obeys_mul_spec() -> bool { true }
    open spec fn mul_req(self, rhs: &'b Scalar) -> bool { true }
    open spec fn mul_spec(self, rhs: &'b Scalar) -> Scalar { s_mul(*self, *rhs) }
}
impl<'a,'b> core::ops::Mul<&'b Scalar> for &'a Scalar {
    type Output = Scalar;
    #[verifier::external_body]
    fn mul(self, rhs: &'b Scalar) -> (r: Scalar) { unimplemented!() }
}
impl<'a> vstd::std_specs::ops::MulSpecImpl<Scalar> for &'a P {
    open spec fn obeys_mul_spec() -> bool { true }
    open spec fn mul_req(self, rhs: Scalar) -> bool { true }
    open spec fn mul_spec(self, rhs: Scalar) -> P { p_mul_r(*self, rhs) }
}
impl<'a> core::ops::Mul<Scalar> for &'a P {
    type Output = P;
    #[verifier::external_body]
    fn mul(self, rhs: Scalar) -> (r: P) { unimplemented!() }
}
impl<'a,'b> vstd::std_specs::ops::MulSpecImpl<&'b Scalar> for &'a P {
    open spec fn obeys_mul_spec() -> bool { true }
    open spec fn mul_req(self, rhs: &'b Scalar) -> bool { true }
    open spec fn mul_spec(self, rhs: &'b Scalar) -> P { p_mul_r(*self, *rhs) }
}
impl<'a,'b> core::ops::Mul<&'b Scalar> for &'a P {
    type Output = P;
    #[verifier::external_body]
    fn mul(self, rhs: &'b Scalar) -> (r: P) { unimplemented!() }
}
impl vstd::std_specs::ops::AddSpecImpl<P> for P {
    open spec fn obeys_add_spec() -> bool { true }
    open spec fn add_req(self, rhs: P) -> bool { true }
    open spec fn add_spec(self, rhs: P) -> P { p_add(self, rhs) }
}
impl core::ops::Add<P> for P {
    type Output = P;
    #[verifier::external_body]
    fn add(self, rhs: P) -> (r: P) { unimplemented!() }
}
impl<'a,'b> vstd::std_specs::ops::AddSpecImpl<&'b P> for &'a P {
    open spec fn obeys_add_spec() -> bool { true }
    open spec fn add_req(self, rhs: &'b P) -> bool { true }
    open spec fn add_spec(self, rhs: &'b P) -> P { p_add(*self, *rhs) }
}
impl<'a,'b> core::ops::Add<&'b P> for &'a P {
    type Output = P;
    #[verifier::external_body]
    fn add(self, rhs: &'b P) -> (r: P) { unimplemented!() }
}
impl vstd::std_specs::ops::AddAssignSpecImpl<Scalar> for Scalar {
    open spec fn obeys_add_assign_spec() -> bool { true }
    open spec fn add_assign_req(self, rhs: Scalar) -> bool { true }
    open spec fn add_assign_spec(self, rhs: Scalar) -> Scalar { s_add(self, rhs) }
}
impl core::ops::AddAssign<Scalar> for Scalar {
    #[verifier::external_body]
    fn add_assign(&mut self, rhs: Scalar) { unimplemented!() }
}
impl<'b> vstd::std_specs::ops::AddAssignSpecImpl<&'b Scalar> for Scalar {
    open spec fn obeys_add_assign_spec() -> bool { true }
    open spec fn add_assign_req(self, rhs: &'b Scalar) -> bool { true }
    open spec fn add_assign_spec(self, rhs: &'b Scalar) -> Scalar { s_add(self, *rhs) }
}
impl<'b> core::ops::AddAssign<&'b Scalar> for Scalar {
    #[verifier::external_body]
    fn add_assign(&mut self, rhs: &'b Scalar) { unimplemented!() }
}
impl vstd::std_specs::ops::SubAssignSpecImpl<Scalar> for Scalar {
    open spec fn obeys_sub_assign_spec() -> bool { true }
    open spec fn sub_assign_req(self, rhs: Scalar) -> bool { true }
    open spec fn sub_assign_spec(self, rhs: Scalar) -> Scalar { s_sub(self, rhs) }
}
impl core::ops::SubAssign<Scalar> for Scalar {
    #[verifier::external_body]
    fn sub_assign(&mut self, rhs: Scalar) { unimplemented!() }
}
impl<'b> vstd::std_specs::ops::SubAssignSpecImpl<&'b Scalar> for Scalar {
    open spec fn obeys_sub_assign_spec() -> bool { true }
    open spec fn sub_assign_req(self, rhs: &'b Scalar) -> bool { true }
    open spec fn sub_assign_spec(self, rhs: &'b Scalar) -> Scalar { s_sub(self, *rhs) }
}
impl<'b> core::ops::SubAssign<&'b Scalar> for Scalar {
    #[verifier::external_body]
    fn sub_assign(&mut self, rhs: &'b Scalar) { unimplemented!() }
}
impl vstd::std_specs::ops::MulAssignSpecImpl<Scalar> for Scalar {
    open spec fn obeys_mul_assign_spec() -> bool { true }
    open spec fn mul_assign_req(self, rhs: Scalar) -> bool { true }
    open spec fn mul_assign_spec(self, rhs: Scalar) -> Scalar { s_mul(self, rhs) }
}
impl core::ops::MulAssign<Scalar> for Scalar {
    #[verifier::external_body]
    fn mul_assign(&mut self, rhs: Scalar) { unimplemented!() }
}
impl<'b> vstd::std_specs::ops::MulAssignSpecImpl<&'b Scalar> for Scalar {
    open spec fn obeys_mul_assign_spec() -> bool { true }
    open spec fn mul_assign_req(self, rhs: &'b Scalar) -> bool { true }
    open spec fn mul_assign_spec(self, rhs: &'b Scalar) -> Scalar { s_mul(self, *rhs) }
}
impl<'b> core::ops::MulAssign<&'b Scalar> for Scalar {
    #[verifier::external_body]
    fn mul_assign(&mut self, rhs: &'b Scalar) { unimplemented!() }
}
impl vstd::std_specs::ops::AddAssignSpecImpl<P> for P {
    open spec fn obeys_add_assign_spec() -> bool { true }
    open spec fn add_assign_req(self, rhs: P) -> bool { true }
    open spec fn add_assign_spec(self, rhs: P) -> P { p_add(self, rhs) }
}
impl core::ops::AddAssign<P> for P {
    #[verifier::external_body]
    fn add_assign(&mut self, rhs: P) { unimplemented!() }
}
impl vstd::std_specs::ops::NegSpecImpl for Scalar {
    open spec fn obeys_neg_spec() -> bool { true }
    open spec fn neg_req(self) -> bool { true }
    open spec fn neg_spec(self) -> Scalar { s_neg(self) }
}
impl core::ops::Neg for Scalar {
    type Output = Scalar;
    #[verifier::external_body]
    fn neg(self) -> (r: Scalar) { unimplemented!() }
}
impl<'a> vstd::std_specs::ops::NegSpecImpl for &'a Scalar {
    open spec fn obeys_neg_spec() -> bool { true }
    open spec fn neg_req(self) -> bool { true }
    open spec fn neg_spec(self) -> Scalar { s_neg(*self) }
}
impl<'a> core::ops::Neg for &'a Scalar {
    type Output = Scalar;
    #[verifier::external_body]
    fn neg(self) -> (r: Scalar) { unimplemented!() }
}
