// ===================== support for src/utils/nullrng.rs: zeroize on byte slices =====================
pub open spec fn zero_bytes(n: nat) -> Seq<u8> { Seq::new(n, |k: int| 0u8) }
pub trait VZeroizeSlice { fn zeroize(&mut self); }
impl VZeroizeSlice for [u8] {
    // zeroize::Zeroize for [u8]: every byte is overwritten with zero, the length is kept
    #[verifier::external_body]
    fn zeroize(&mut self) ensures final(self)@ == zero_bytes(old(self)@.len()) { unimplemented!() }
}
pub struct RandError;      // rand_core::Error
pub struct NullRng;
// rand_core::impls::{next_u32_via_fill, next_u64_via_fill} (dependency, modelled from its source text: a zeroed buffer of 4 / 8 bytes is handed to
// `fill_bytes` and decoded little-endian). The bodies are verified against NullRng::fill_bytes's contract; only the little-endian decoders are assumed.
#[verifier::external_body]
pub fn v_u32_from_le(b: &[u8]) -> (r: u32) requires b@.len() == 4, ensures b@ == zero_bytes(4) ==> r == 0u32 { unimplemented!() }
#[verifier::external_body]
pub fn v_u64_from_le(b: &[u8]) -> (r: u64) requires b@.len() == 8, ensures b@ == zero_bytes(8) ==> r == 0u64 { unimplemented!() }
#[verifier::external_body]
pub fn v_zeroed_buf(n: usize) -> (r: Vec<u8>) ensures r@ == zero_bytes(n as nat) { unimplemented!() }
pub fn next_u32_via_fill(rng: &mut NullRng) -> (r: u32) ensures r == 0u32 {
    let mut buf = v_zeroed_buf(4);
    rng.fill_bytes(buf.as_mut_slice());
    v_u32_from_le(buf.as_slice())
}
pub fn next_u64_via_fill(rng: &mut NullRng) -> (r: u64) ensures r == 0u64 {
    let mut buf = v_zeroed_buf(8);
    rng.fill_bytes(buf.as_mut_slice());
    v_u64_from_le(buf.as_slice())
}
