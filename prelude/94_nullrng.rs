// ===================== support for src/utils/nullrng.rs: zeroize on byte slices =====================
pub open spec fn zero_bytes(n: nat) -> Seq<u8> { Seq::new(n, |k: int| 0u8) }
pub trait VZeroizeSlice { fn zeroize(&mut self); }
impl VZeroizeSlice for [u8] {
    // zeroize::Zeroize for [u8]: every byte is overwritten with zero, the length is kept
    #[verifier::external_body]
    fn zeroize(&mut self) ensures final(self)@ == zero_bytes(old(self)@.len()) { unimplemented!() }
}
pub struct RandError;      // rand_core::Error
pub struct NullRng;
