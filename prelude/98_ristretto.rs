// ===================== ristretto.rs support: dalek constants, the masking base points =====================
pub uninterp spec fn ristretto_basepoint() -> P;
// the k-th masking base point: from_uniform_bytes(SHA3-512("RISTRETTO_MASKING_BASEPOINT_" || decimal(k + 1))) - established by the statics of ristretto.rs (unit pedersen_statics)
pub uninterp spec fn decimal_bytes(n: nat) -> Seq<u8>;     // the ASCII decimal digits of n (what `usize::to_string` produces)
pub open spec fn masking_label(n: nat) -> Seq<u8> { "RISTRETTO_MASKING_BASEPOINT_".spec_bytes() + decimal_bytes(n) }
pub open spec fn masking_point(k: int) -> P { p_from_uniform(sha3_512(masking_label((k + 1) as nat))) }
#[verifier::external_body]
pub fn v_basepoint() -> (r: P) ensures r == ristretto_basepoint() { unimplemented!() }
#[verifier::external_body]
pub fn v_basepoint_compressed() -> (r: CP) ensures r == p_compress(ristretto_basepoint()) { unimplemented!() }
pub assume_specification<T: Clone> [<[T] as std::borrow::ToOwned>::to_owned] (s: &[T]) -> (r: Vec<T>)
    ensures r@ == s@;
// once_cell::sync::OnceCell::get_or_init on a function-local static: the reference handed out points to a value some call of the initialiser returned
// (R-ONCE: `static INSTANCE: OnceCell<T> = OnceCell::new(); INSTANCE.get_or_init(f)` is extracted as `v_once_init(f)`; the initialisers captured nothing)
#[verifier::external_body]
pub fn v_once_init<T, F: FnOnce() -> T>(f: F) -> (r: &'static T)
    requires f.requires(()),
    ensures f.ensures((), *r),
{ unimplemented!() }
impl CP {
    #[verifier::external_body]
    pub fn identity() -> (r: CP) { unimplemented!() }    // curve25519_dalek::traits::Identity for CompressedRistretto; the value is overwritten before it is read
}
// R-STRCAT: `<str>.to_owned() + &<usize>.to_string()` is extracted as `<str>.v_concat_decimal(<usize>)`; the String it builds is seen only through `as_bytes`
#[verifier::external_body]
pub struct VLabel { s: String }
impl VLabel {
    pub uninterp spec fn bytes(&self) -> Seq<u8>;
    #[verifier::external_body]
    pub fn as_bytes(&self) -> (r: &[u8]) ensures r@ == self.bytes() { unimplemented!() }
}
pub trait VStrExt { fn v_concat_decimal(&self, n: usize) -> (r: VLabel); }
impl VStrExt for str {
    #[verifier::external_body]
    fn v_concat_decimal(&self, n: usize) -> (r: VLabel) ensures r.bytes() == self.spec_bytes() + decimal_bytes(n as nat) { unimplemented!() }
}
// `(a..)`: the unbounded range, as far as a zip with a finite iterator can see it (R-RANGEFROM: `(a ..)` is extracted as `v_range_from(a)`)
#[verifier::external_body]
pub fn v_range_from(a: usize) -> (r: VSeqIter<usize>)
    ensures r.items() == Seq::new((usize::MAX - a) as nat, |k: int| (a + k) as usize)
{ unimplemented!() }
impl P {
    // CurvePointProtocol::hash_from_bytes_sha3_512 (default method; under contract in unit gens_chain: C11.hash_to_point...)
    #[verifier::external_body]
    pub fn hash_from_bytes_sha3_512(input: &[u8]) -> (r: P) ensures r == p_from_uniform(sha3_512(input@)) { unimplemented!() }
}
impl Copy for P {}     // in ristretto.rs P is dalek's RistrettoPoint, which is Copy
