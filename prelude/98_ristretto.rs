// ===================== ristretto.rs support: dalek constants, the masking base points =====================
pub uninterp spec fn ristretto_basepoint() -> P;
pub uninterp spec fn masking_point(k: int) -> P;     // from_uniform_bytes(SHA3-512("RISTRETTO_MASKING_BASEPOINT_" || decimal(k + 1))), established by the statics of ristretto.rs
#[verifier::external_body]
pub fn v_basepoint() -> (r: P) ensures r == ristretto_basepoint() { unimplemented!() }
#[verifier::external_body]
pub fn v_basepoint_compressed() -> (r: CP) ensures r == p_compress(ristretto_basepoint()) { unimplemented!() }
pub assume_specification<T: Clone> [<[T] as std::borrow::ToOwned>::to_owned] (s: &[T]) -> (r: Vec<T>)
    ensures r@ == s@;
