#!/bin/bash
# usage: seed_r5.sh <area letter>...   - confirms the round-5 changes of an area (property read from the first line of notes.md), ids Cxx_<next free>
for a in "$@"; do
  for k in 1 2 3; do
    d=/tmp/r5/$a/$k
    [ -f $d/patch.diff ] || { echo "$a/$k: no patch"; continue; }
    p=$(head -1 $d/notes.md | grep -o "C[0-9][0-9]" | head -1)
    [ -n "$p" ] || { echo "$a/$k: no property in notes"; continue; }
    n=1; while [ -d /verif/seeded/${p}_$n ]; do n=$((n+1)); done
    id=${p}_$n
    /verif/seed_confirm.sh /tmp/wt5_$a $d $id $p 2>&1 | tail -1 | cut -c1-110
    echo "$a/$k -> $id" >> /tmp/r5/ids.txt
  done
  git -C /repo worktree remove --force /tmp/wt5_$a 2>/dev/null
done
