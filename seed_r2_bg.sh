#!/bin/bash
# Confirms and tests all round-2 seeded changes from a snapshot of the committed /verif (so that the live tree can be edited meanwhile).
SNAP=/tmp/verif_snap2
rm -rf $SNAP; mkdir -p $SNAP
git -C /verif archive HEAD | tar -x -C $SNAP
mkdir -p $SNAP/vx/target/release && cp /verif/vx/target/release/vx $SNAP/vx/target/release/vx
for p in "$@"; do
  for k in 1 2; do
    id=${p}_$((k+2))
    [ -f /tmp/r2/$p/$k/patch.diff ] || { echo "$id: no patch"; continue; }
    if [ -d /tmp/wt2_$p ]; then /verif/seed_confirm.sh /tmp/wt2_$p /tmp/r2/$p/$k $id $p 2>&1 | tail -1 | cut -c1-120; fi
    mkdir -p $SNAP/seeded/$id; cp /verif/seeded/$id/* $SNAP/seeded/$id/
  done
  git -C /repo worktree remove --force /tmp/wt2_$p 2>/dev/null
  R=/tmp/sr2_$p; B=/tmp/sb2_$p
  rm -rf $R $B; git clone -q /repo $R
  (cd $SNAP && VERIF_REPO=$R VERIF_BUILD=$B VERIF_EVIDENCE_DIR=$B/ev python3 ./seed_matrix.py ${p}_3 ${p}_4 2>&1 | cut -c1-400)
  for k in 3 4; do cp $SNAP/seeded/${p}_$k/detection.json /verif/seeded/${p}_$k/ 2>/dev/null; done
  rm -rf $R $B
done
echo finished
