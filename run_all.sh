#!/bin/bash
# runs every claimed check once (quick tier) and prints one line per property
cd "$(dirname "$0")"
for p in $(python3 -c "import json;print(' '.join(c['property_id'] for c in json.load(open('MANIFEST.json'))['checks']))"); do
  out=$(./check $p --tier ${1:-quick} 2>&1); rc=$?
  echo "[$rc] $(echo "$out" | tail -1 | cut -c1-220)"
done
