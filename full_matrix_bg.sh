#!/bin/bash
# Runs every confirmed seeded change and every benign refactoring against the checks, from a snapshot of the committed /verif and scratch
# clones of /repo; copies seeded/*/detection.json, seeded/RESULTS.md and benign/RESULTS.md back.
SNAP=/tmp/verif_snapF
rm -rf $SNAP; mkdir -p $SNAP
git -C /verif archive HEAD | tar -x -C $SNAP
mkdir -p $SNAP/vx/target/release && cp /verif/vx/target/release/vx $SNAP/vx/target/release/vx
(
  R=/tmp/fm_repo; B=/tmp/fm_build; rm -rf $R $B; git clone -q /repo $R
  cd $SNAP && VERIF_REPO=$R VERIF_BUILD=$B VERIF_EVIDENCE_DIR=$B/ev python3 ./seed_matrix.py > /tmp/full_seed.log 2>&1
  for d in seeded/C*_*; do cp $d/detection.json /verif/$d/detection.json 2>/dev/null; done
  cp seeded/RESULTS.md /verif/seeded/RESULTS.md
  rm -rf $R $B; echo finished >> /tmp/full_seed.log
) &
(
  out=/tmp/full_benign.log; : > $out
  declare -A PR=( [b1]="C06 C13 C01" [b2]="C03 C02 C09 C16" [b3]="C04 C14 C19 C09" [b4]="C15 C17 C11 C16" )
  for tag in b1 b2 b3 b4; do
    R=/tmp/fb_repo_$tag; B=/tmp/fb_build_$tag; rm -rf $R $B; git clone -q /repo $R
    for pf in $SNAP/benign/$tag/patch_*.diff; do
      git -C $R checkout -q -- . ; git -C $R apply $pf || { echo "$tag $(basename $pf) DOES-NOT-APPLY" >> $out; continue; }
      for p in ${PR[$tag]}; do
        o=$(cd $SNAP && VERIF_REPO=$R VERIF_BUILD=$B VERIF_EVIDENCE_DIR=$B/ev ./check $p 2>&1); rc=$?
        echo "$tag $(basename $pf) $p exit=$rc $(echo "$o" | grep -E 'VIOLATION|INCONCLUSIVE|^OK' | head -1 | cut -c1-240)" >> $out
      done
    done
    rm -rf $R $B
  done
  { echo "| refactoring | check | exit | first line |"; echo "|---|---|---|---|"; awk '{t=$1; p=$2; c=$3; e=$4; $1=$2=$3=$4=""; gsub(/\|/,"/"); print "| " t "/" p " | " c " | " e " | " $0 " |"}' $out; } > /verif/benign/RESULTS.md
  echo finished >> $out
) &
wait
rm -rf $SNAP
