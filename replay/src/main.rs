// bpp-replay: re-executes the REAL crate on directed input families and evaluates the executable form of contract
// postconditions. It never decides that a property holds; the driver uses it only after the deductive verifier failed an
// obligation or could not reach the code (lost anchor / unsupported construct), to turn that into a demonstrated failing input.
//
//   bpp-replay search <Cxx>          run the directed family of <Cxx>; print one JSON line for the first failing case
//   bpp-replay run <Cxx> <case-id>   re-execute exactly one case
use std::panic::{catch_unwind, AssertUnwindSafe};

use curve25519_dalek::{ristretto::RistrettoPoint, scalar::Scalar, traits::Identity};
use merlin::Transcript;
use rand_chacha::ChaCha12Rng;
use rand_core::{RngCore, SeedableRng};
use tari_bulletproofs_plus::{
    commitment_opening::CommitmentOpening,
    extended_mask::ExtendedMask,
    generators::pedersen_gens::ExtensionDegree,
    range_parameters::RangeParameters,
    range_proof::{RangeProof, VerifyAction},
    range_statement::RangeStatement,
    range_witness::RangeWitness,
    ristretto::{create_pedersen_gens_with_extension_degree, RistrettoRangeProof},
};

type Case = (String, Box<dyn Fn() -> Result<(), String>>);
type P = RistrettoPoint;

fn seed_of(id: &str) -> u64 {
    let base: u64 = std::env::var("VERIF_SEED").ok().and_then(|s| s.parse().ok()).unwrap_or(0);
    let mut h: u64 = 0xcbf29ce484222325 ^ base;
    for b in id.bytes() { h ^= b as u64; h = h.wrapping_mul(0x100000001b3); }
    h
}
fn rng_for(id: &str) -> ChaCha12Rng { ChaCha12Rng::seed_from_u64(seed_of(id)) }
fn deg(d: usize) -> ExtensionDegree { ExtensionDegree::try_from(d).unwrap() }

// ---- behaviour digest: every result the crate hands back to these cases is folded into one hash (mode `fingerprint`); error values by variant only
static OBS: std::sync::Mutex<Option<sha3::Sha3_256>> = std::sync::Mutex::new(None);
fn obs(tag: &str, data: &[u8]) {
    if let Ok(mut g) = OBS.lock() { if let Some(h) = g.as_mut() {
        use digest::Digest;
        h.update((tag.len() as u32).to_le_bytes()); h.update(tag.as_bytes()); h.update((data.len() as u64).to_le_bytes()); h.update(data);
    } }
}
fn kind<E: std::fmt::Debug>(e: &E) -> String { format!("{:?}", e).split('(').next().unwrap_or("").to_string() }
fn o_prove<R: RngCore + rand_core::CryptoRng>(t: &mut Transcript, st: &RangeStatement<P>, w: &RangeWitness, rng: &mut R) -> Result<RistrettoRangeProof, tari_bulletproofs_plus::errors::ProofError> {
    let r = RangeProof::prove_with_rng(t, st, w, rng);
    match &r { Ok(p) => obs("prove", &p.to_bytes()), Err(e) => obs("prove-err", kind(e).as_bytes()) }
    r
}
fn o_verify_batch(t: &mut [Transcript], st: &[RangeStatement<P>], pr: &[RistrettoRangeProof], a: VerifyAction) -> Result<Vec<Option<ExtendedMask>>, tari_bulletproofs_plus::errors::ProofError> {
    let r = RangeProof::verify_batch(t, st, pr, a);
    match &r {
        Ok(ms) => { obs("verify-ok", &(ms.len() as u64).to_le_bytes()); for m in ms { match m { Some(x) => { let b: Vec<u8> = x.blindings().map(|v| v.iter().flat_map(|s| s.to_bytes()).collect()).unwrap_or_default(); obs("mask", &b) } None => obs("mask-none", &[]) } } }
        Err(e) => obs("verify-err", kind(e).as_bytes()),
    }
    r
}
fn o_from_bytes(b: &[u8]) -> Result<RistrettoRangeProof, tari_bulletproofs_plus::errors::ProofError> {
    let r = RistrettoRangeProof::from_bytes(b);
    match &r { Ok(p) => obs("decode", &p.to_bytes()), Err(e) => obs("decode-err", kind(e).as_bytes()) }
    r
}

#[derive(Clone)]
struct Member { statement: RangeStatement<P>, proof: RistrettoRangeProof, blindings: Vec<Scalar>, seeded: bool }

// honest (statement, proof) for `m` commitments of `bits` bits, extension degree d, capacity cap, optional seed
// statement and witness drawn deterministically from `rng` (the same draws whether or not a proof is made afterwards)
fn make_statement(rng: &mut ChaCha12Rng, bits: usize, m: usize, cap: usize, d: usize, seed: bool, promise: Option<u8>) -> Result<(RangeStatement<P>, RangeWitness, Vec<Scalar>), String> {
    let pc = create_pedersen_gens_with_extension_degree(deg(d));
    let params = RangeParameters::init(bits, cap, pc).map_err(|e| format!("params: {:?}", e))?;
    let mut openings = vec![]; let mut commitments = vec![]; let mut promises = vec![]; let mut first_r = vec![];
    for j in 0..m {
        let maxv: u64 = if bits >= 64 { u64::MAX } else { (1u64 << bits) - 1 };
        let v = match (rng.next_u32() % 4, j) { (0, _) => 0, (1, _) => maxv, _ => rng.next_u64() & maxv };
        let r: Vec<Scalar> = (0..d).map(|_| Scalar::random(rng)).collect();
        if j == 0 { first_r = r.clone(); }
        commitments.push(params.pc_gens().commit(&Scalar::from(v), &r).map_err(|e| format!("commit: {:?}", e))?);
        promises.push(match promise { None => None, Some(0) => Some(0), Some(1) => Some(v), Some(_) => Some(v / 2) });
        openings.push(CommitmentOpening::new(v, r));
    }
    let seed_nonce = if seed && m == 1 { Some(Scalar::random(rng)) } else { None };
    let statement = RangeStatement::init(params, commitments, promises, seed_nonce).map_err(|e| format!("statement: {:?}", e))?;
    let witness = RangeWitness::init(openings).map_err(|e| format!("witness: {:?}", e))?;
    Ok((statement, witness, first_r))
}
fn make_member(rng: &mut ChaCha12Rng, bits: usize, m: usize, cap: usize, d: usize, seed: bool, promise: Option<u8>, ctx: &'static [u8]) -> Result<Member, String> {
    let (statement, witness, first_r) = make_statement(rng, bits, m, cap, d, seed, promise)?;
    let proof = o_prove(&mut Transcript::new(ctx), &statement, &witness, rng).map_err(|e| format!("prove: {:?}", e))?;
    Ok(Member { statement, proof, blindings: first_r, seeded: seed && m == 1 })
}
// ---- recorded vectors (C19, bounded): proofs serialised by the unchanged tree (`bpp-replay gen-vectors`, committed as replay/vectors.txt) must still be
// accepted, with the recorded masks, by the current code under the statements rebuilt from the same seeds
const VECTOR_CONFIGS: &[(usize, usize, usize, usize, bool, Option<u8>)] = &[
    (8, 1, 1, 1, true, None), (64, 1, 1, 2, true, Some(2)), (4, 2, 2, 1, false, Some(1)), (16, 4, 8, 3, false, None), (2, 8, 8, 1, false, Some(0)),
    (32, 1, 4, 6, true, Some(1)), (1, 2, 2, 2, false, None), (64, 2, 2, 4, false, Some(2)),
];
fn vector_seed(i: usize) -> ChaCha12Rng { ChaCha12Rng::seed_from_u64(0x5eed_0000 + i as u64) }
fn gen_vectors() -> Result<String, String> {
    let mut out = String::new();
    for (i, &(bits, m, cap, d, seed, promise)) in VECTOR_CONFIGS.iter().enumerate() {
        let mut rng = vector_seed(i);
        let mem = make_member(&mut rng, bits, m, cap, d, seed, promise, b"wire vectors")?;
        let hex: String = mem.proof.to_bytes().iter().map(|b| format!("{:02x}", b)).collect();
        out.push_str(&format!("{} {}\n", i, hex));
    }
    Ok(out)
}
// recovery seeds with special values (zero, one, minus one) are seeds like any other
fn fam_fixed_seeds(tag: &str, out: &mut Vec<Case>) {
    let id = format!("{}:modes:special-seeds", tag);
    out.push((id, Box::new(move || {
        let mut rng = rng_for("special-seeds");
        for sd in [Scalar::ZERO, Scalar::ONE, -Scalar::ONE] {
            let (st0, witness, first_r) = make_statement(&mut rng, 8, 1, 2, 2, false, None)?;
            let statement = RangeStatement::init(st0.generators.clone(), st0.commitments.clone(), st0.minimum_value_promises.clone(), Some(sd)).map_err(|e| format!("{:?}", e))?;
            let proof = o_prove(&mut Transcript::new(b"ctx"), &statement, &witness, &mut rng).map_err(|e| format!("the prover refused a statement whose recovery seed is {:?}: {:?}", sd.to_bytes()[0], e))?;
            let mem = Member { statement, proof, blindings: first_r, seeded: true };
            let other = make_member(&mut rng, 8, 1, 2, 2, false, None, b"ctx")?;
            for action in [VerifyAction::VerifyOnly, VerifyAction::RecoverAndVerify, VerifyAction::RecoverOnly] {
                let batch = [other.clone(), mem.clone()];
                let res = verify(&batch, action, b"ctx").map_err(|e| format!("proof under a recovery seed with first byte {} rejected ({:?}): {}", sd.to_bytes()[0], action, e))?;
                check_masks(&batch, &res, action != VerifyAction::VerifyOnly)?;
            }
        }
        Ok(())
    })));
}
fn fam_vectors(tag: &str, out: &mut Vec<Case>) {
    let id = format!("{}:vectors", tag);
    out.push((id, Box::new(move || {
        let txt = include_str!("../vectors.txt");
        let mut n = 0;
        for line in txt.lines() {
            let mut it = line.split_whitespace();
            let (Some(i), Some(hex)) = (it.next(), it.next()) else { continue };
            let i: usize = i.parse().map_err(|_| "bad vector index".to_string())?;
            let bytes: Vec<u8> = (0..hex.len() / 2).map(|k| u8::from_str_radix(&hex[2 * k..2 * k + 2], 16).unwrap_or(0)).collect();
            let (bits, m, cap, d, seed, promise) = VECTOR_CONFIGS[i];
            let mut rng = vector_seed(i);
            let (statement, _w, first_r) = make_statement(&mut rng, bits, m, cap, d, seed, promise)?;
            let proof = o_from_bytes(&bytes).map_err(|e| format!("recorded proof {} is no longer decodable: {:?}", i, e))?;
            if proof.to_bytes() != bytes { return Err(format!("recorded proof {} re-encodes differently", i)); }
            let mem = Member { statement, proof, blindings: first_r, seeded: seed && m == 1 };
            for action in [VerifyAction::VerifyOnly, VerifyAction::RecoverAndVerify, VerifyAction::RecoverOnly] {
                let mut tr = [Transcript::new(b"wire vectors")];
                let res = o_verify_batch(&mut tr, &[mem.statement.clone()], &[mem.proof.clone()], action)
                    .map_err(|e| format!("proof {} recorded on the unchanged tree (bits {}, m {}, degree {}) is no longer accepted ({:?}): {:?}", i, bits, m, d, action, e))?;
                check_masks(&[mem.clone()], &res, action != VerifyAction::VerifyOnly)?;
            }
            n += 1;
        }
        if n != VECTOR_CONFIGS.len() { return Err(format!("{} recorded vectors, {} expected", n, VECTOR_CONFIGS.len())); }
        Ok(())
    })));
}
fn verify(ms: &[Member], action: VerifyAction, ctx: &'static [u8]) -> Result<Vec<Option<ExtendedMask>>, String> {
    let st: Vec<_> = ms.iter().map(|m| m.statement.clone()).collect();
    let pr: Vec<_> = ms.iter().map(|m| m.proof.clone()).collect();
    let mut tr: Vec<_> = ms.iter().map(|_| Transcript::new(ctx)).collect();
    o_verify_batch(&mut tr, &st, &pr, action).map_err(|e| format!("{:?}", e))
}
// flip one byte of the encoding at a position that keeps the encoding parseable (a point/scalar slot)
fn tamper(p: &RistrettoRangeProof, slot: usize) -> Option<RistrettoRangeProof> {
    let mut b = p.to_bytes();
    let n = (b.len() - 1) / 32;
    let s = slot % n;
    // replace the slot by the encoding of a small scalar / the basepoint-derived point so that it stays decodable
    let repl = Scalar::from(7u64 + slot as u64).to_bytes();
    let d = b[0] as usize;
    let is_scalar = s < d || s == d + 3 || s == d + 4;
    if is_scalar { b[1 + 32 * s..1 + 32 * s + 32].copy_from_slice(&repl); }
    else { let mut wide = [0u8; 64]; wide[..32].copy_from_slice(&repl); wide[32..].copy_from_slice(&repl); let pt = RistrettoPoint::from_uniform_bytes(&wide).compress(); b[1 + 32 * s..1 + 32 * s + 32].copy_from_slice(pt.as_bytes()); }
    o_from_bytes(&b).ok()
}
fn check_masks(ms: &[Member], res: &[Option<ExtendedMask>], recovering: bool) -> Result<(), String> {
    if res.len() != ms.len() { return Err(format!("{} results for {} members", res.len(), ms.len())); }
    for (i, (m, r)) in ms.iter().zip(res.iter()).enumerate() {
        match (recovering && m.seeded, r) {
            (true, Some(mask)) => { if mask.blindings().map_err(|e| format!("{:?}", e))? != m.blindings { return Err(format!("mask mismatch at batch position {}", i)); } }
            (true, None) => return Err(format!("no mask at seeded position {}", i)),
            (false, None) => {}
            (false, Some(_)) => return Err(format!("unexpected mask at position {}", i)),
        }
    }
    Ok(())
}

// ------------------------------------------------------------------ families
// honest witnesses at the corners the property names: value 0 with all-zero blinding factors (the commitment is the identity), single and inside an aggregate
fn fam_corner_witnesses(tag: &str, out: &mut Vec<Case>) {
    for &(bits, m, d, seed) in &[(8usize, 1usize, 1usize, false), (64, 1, 2, true), (16, 4, 1, false)] {
        let id = format!("{}:complete:identity-commitment:bits={},m={},d={}", tag, bits, m, d);
        let idc = id.clone();
        out.push((id, Box::new(move || {
            let mut rng = rng_for(&idc);
            let pc = create_pedersen_gens_with_extension_degree(deg(d));
            let params = RangeParameters::init(bits, m, pc).map_err(|e| format!("{:?}", e))?;
            let mut openings = vec![]; let mut commitments = vec![];
            for j in 0..m {
                let (v, r): (u64, Vec<Scalar>) = if j == 0 { (0, vec![Scalar::ZERO; d]) } else { (rng.next_u64() & ((1u64 << (bits - 1)) - 1), (0..d).map(|_| Scalar::random(&mut rng)).collect()) };
                commitments.push(params.pc_gens().commit(&Scalar::from(v), &r).map_err(|e| format!("{:?}", e))?);
                openings.push(CommitmentOpening::new(v, r));
            }
            let seed_nonce = if seed && m == 1 { Some(Scalar::random(&mut rng)) } else { None };
            let statement = RangeStatement::init(params, commitments, vec![None; m], seed_nonce).map_err(|e| format!("{:?}", e))?;
            let witness = RangeWitness::init(openings).map_err(|e| format!("{:?}", e))?;
            let proof = o_prove(&mut Transcript::new(b"ctx"), &statement, &witness, &mut rng)
                .map_err(|e| format!("prover refused an honest witness whose first commitment is the identity (value 0, zero blinding): {:?}", e))?;
            let mem = Member { statement, proof, blindings: vec![Scalar::ZERO; d], seeded: seed && m == 1 };
            for action in [VerifyAction::VerifyOnly, VerifyAction::RecoverAndVerify, VerifyAction::RecoverOnly] {
                let res = verify(&[mem.clone()], action, b"ctx").map_err(|e| format!("honest proof for an identity commitment rejected ({:?}): {}", action, e))?;
                check_masks(&[mem.clone()], &res, action != VerifyAction::VerifyOnly)?;
            }
            Ok(())
        })));
    }
}
// a statement may list the same commitment (same value, same mask) more than once; it is a valid statement with a valid witness
fn fam_duplicate_commitments(tag: &str, out: &mut Vec<Case>) {
    for &(bits, m, d) in &[(8usize, 2usize, 1usize), (16, 4, 2)] {
        let id = format!("{}:complete:duplicate-commitments:bits={},m={},d={}", tag, bits, m, d);
        let idc = id.clone();
        out.push((id, Box::new(move || {
            let mut rng = rng_for(&idc);
            let pc = create_pedersen_gens_with_extension_degree(deg(d));
            let params = RangeParameters::init(bits, m, pc).map_err(|e| format!("{:?}", e))?;
            let v = rng.next_u64() & ((1u64 << (bits - 1)) - 1);
            let r: Vec<Scalar> = (0..d).map(|_| Scalar::random(&mut rng)).collect();
            let c = params.pc_gens().commit(&Scalar::from(v), &r).map_err(|e| format!("{:?}", e))?;
            let statement = RangeStatement::init(params, vec![c; m], vec![None; m], None).map_err(|e| format!("statement listing one commitment {} times refused: {:?}", m, e))?;
            let witness = RangeWitness::init((0..m).map(|_| CommitmentOpening::new(v, r.clone())).collect()).map_err(|e| format!("{:?}", e))?;
            let proof = o_prove(&mut Transcript::new(b"ctx"), &statement, &witness, &mut rng)
                .map_err(|e| format!("prover refused a valid witness for a statement listing one commitment {} times: {:?}", m, e))?;
            let mem = Member { statement, proof, blindings: r.clone(), seeded: false };
            let other = make_member(&mut rng, bits, 1, 1, d, false, None, b"ctx")?;
            for action in [VerifyAction::VerifyOnly, VerifyAction::RecoverAndVerify] {
                let batch = [mem.clone(), other.clone(), mem.clone()];
                verify(&batch, action, b"ctx").map_err(|e| format!("honest proof for a statement listing one commitment {} times rejected ({:?}): {}", m, action, e))?;
            }
            Ok(())
        })));
    }
}
// the `prove` entry point (OS generator): honest proofs verify under the caller's transcript context, and two runs do not repeat their nonces
fn fam_entry_point(tag: &str, out: &mut Vec<Case>) {
    let id = format!("{}:complete:prove-entry-point", tag);
    out.push((id, Box::new(move || {
        let mut setup = rng_for("prove-entry-point");
        for &(bits, m, d, seed) in &[(8usize, 1usize, 2usize, true), (16, 2, 1, false)] {
            let (statement, witness, first_r) = make_statement(&mut setup, bits, m, m, d, seed, Some(1))?;
            let ctx = || { let mut t = Transcript::new(b"ctx"); t.append_message(b"prior", b"content"); t };
            let p1 = RangeProof::prove(&mut ctx(), &statement, &witness).map_err(|e| format!("prove() refused a valid witness: {:?}", e))?;
            let p2 = RangeProof::prove(&mut ctx(), &statement, &witness).map_err(|e| format!("prove() refused a valid witness: {:?}", e))?;
            if !seed && p1.to_bytes() == p2.to_bytes() { return Err("prove() returned the same proof twice for an unseeded statement: its nonces do not come from the OS generator".into()); }
            for p in [p1, p2] {
                let mut t = [ctx()];
                let res = RangeProof::verify_batch(&mut t, &[statement.clone()], &[p.clone()], VerifyAction::RecoverAndVerify)
                    .map_err(|e| format!("proof made by prove() under a transcript with prior content rejected: {:?}", e))?;
                let mem = Member { statement: statement.clone(), proof: p, blindings: first_r.clone(), seeded: seed && m == 1 };
                check_masks(&[mem], &res, true)?;
            }
        }
        Ok(())
    })));
}
// "for whatever random-number generator the prover is handed": constant and short-period generators
struct CycleRng(Vec<u8>, usize);
impl RngCore for CycleRng {
    fn next_u32(&mut self) -> u32 { let mut b = [0u8; 4]; self.fill_bytes(&mut b); u32::from_le_bytes(b) }
    fn next_u64(&mut self) -> u64 { let mut b = [0u8; 8]; self.fill_bytes(&mut b); u64::from_le_bytes(b) }
    fn fill_bytes(&mut self, d: &mut [u8]) { for x in d.iter_mut() { *x = self.0[self.1 % self.0.len()]; self.1 += 1; } }
    fn try_fill_bytes(&mut self, d: &mut [u8]) -> Result<(), rand_core::Error> { self.fill_bytes(d); Ok(()) }
}
impl rand_core::CryptoRng for CycleRng {}
fn fam_degenerate_rng(tag: &str, out: &mut Vec<Case>) {
    let id = format!("{}:complete:degenerate-rng", tag);
    out.push((id, Box::new(move || {
        let mut setup = rng_for("degenerate-rng");
        for &(bits, m, d, seed) in &[(8usize, 1usize, 1usize, true), (4, 2, 2, false)] {
            let (statement, witness, first_r) = make_statement(&mut setup, bits, m, m, d, seed, Some(2))?;
            let try_with = |name: &str, rng: &mut dyn FnMut(&mut Transcript) -> Result<RistrettoRangeProof, tari_bulletproofs_plus::errors::ProofError>| -> Result<(), String> {
                let proof = rng(&mut Transcript::new(b"ctx")).map_err(|e| format!("the prover refused a valid witness when handed {}: {:?}", name, e))?;
                let mem = Member { statement: statement.clone(), proof, blindings: first_r.clone(), seeded: seed && m == 1 };
                for action in [VerifyAction::VerifyOnly, VerifyAction::RecoverAndVerify] {
                    let res = verify(&[mem.clone()], action, b"ctx").map_err(|e| format!("proof made with {} rejected: {}", name, e))?;
                    check_masks(&[mem.clone()], &res, action != VerifyAction::VerifyOnly)?;
                }
                Ok(())
            };
            for fill in [0x42u8, 0xff, 0x00] {
                try_with(&format!("a constant RNG ({:#x})", fill), &mut |t| { let mut r = ConstRng(fill); o_prove(t, &statement, &witness, &mut r) })?;
            }
            try_with("an RNG of period 16 bytes", &mut |t| { let mut r = CycleRng((1u8..=16).collect(), 0); o_prove(t, &statement, &witness, &mut r) })?;
        }
        Ok(())
    })));
}
fn fam_completeness(tag: &str, out: &mut Vec<Case>) {
    fam_corner_witnesses(tag, out);
    fam_duplicate_commitments(tag, out);
    fam_entry_point(tag, out);
    fam_degenerate_rng(tag, out);
    if tag != "C09" && tag != "C10" { fam_fixed_seeds(tag, out); }
    // C01 / C12 / C09 / C10: honest proofs verify in every mode, masks are the blinding vectors, any verifier capacity works
    for &bits in &[1usize, 2, 4, 8, 16, 32, 64] {
        for &m in &[1usize, 2, 4, 8] {
            for d in 1..=6usize {
                if (bits * m > 128) || (m == 8 && d > 2) || (bits == 64 && m > 2 && d > 1) { continue; }
                for &(cap_p, cap_v) in &[(m, m), (m, 4 * m), (8 * m, m)] {
                    if cap_p != m && (d > 2 || bits > 8) { continue; }
                    let id = format!("{}:complete:bits={},m={},d={},capp={},capv={}", tag, bits, m, d, cap_p, cap_v);
                    let idc = id.clone();
                    out.push((id, Box::new(move || {
                        let mut rng = rng_for(&idc);
                        for promise in [None, Some(1u8), Some(2u8)] {
                            let mem = make_member(&mut rng, bits, m, cap_p, d, true, promise, b"ctx")?;
                            // re-home the statement under verifier parameters of capacity cap_v
                            let pcv = create_pedersen_gens_with_extension_degree(deg(d));
                            let pv = RangeParameters::init(bits, cap_v, pcv).map_err(|e| format!("{:?}", e))?;
                            let stv = RangeStatement::init(pv, mem.statement.commitments.clone(), mem.statement.minimum_value_promises.clone(), mem.statement.seed_nonce)
                                .map_err(|e| format!("{:?}", e))?;
                            let memv = Member { statement: stv, ..mem.clone() };
                            if bits * m == 1 { // zero folding rounds: only the verifier side is exercised
                            }
                            for action in [VerifyAction::VerifyOnly, VerifyAction::RecoverAndVerify, VerifyAction::RecoverOnly] {
                                let res = verify(&[memv.clone()], action, b"ctx").map_err(|e| format!("honest proof rejected ({:?}, promise {:?}): {}", action, promise, e))?;
                                check_masks(&[memv.clone()], &res, action != VerifyAction::VerifyOnly)?;
                            }
                        }
                        Ok(())
                    })));
                }
            }
        }
    }
}

fn fam_batch(tag: &str, out: &mut Vec<Case>) {
    // C03 / C08 / C09: batch sizes around the chunk limit, invalid members at boundary positions, disagreement across chunks, alignment
    for &k in &[1usize, 2, 3, 255, 256, 257, 300, 513] {
        let id = format!("{}:batch:k={}", tag, k);
        let idc = id.clone();
        out.push((id, Box::new(move || {
            let mut rng = rng_for(&idc);
            // a pool of a few distinct members reused cyclically (proving 513 proofs of 4 bits is cheap but not free)
            let pool: Vec<Member> = vec![
                make_member(&mut rng, 4, 1, 1, 1, true, None, b"ctx")?, make_member(&mut rng, 4, 1, 2, 1, false, Some(1), b"ctx")?,
                make_member(&mut rng, 4, 2, 2, 1, true, None, b"ctx")?, make_member(&mut rng, 4, 1, 4, 1, true, Some(2), b"ctx")?,
                make_member(&mut rng, 4, 4, 4, 1, false, None, b"ctx")?,
            ];
            let ms: Vec<Member> = (0..k).map(|i| pool[(i * 7 + 3) % pool.len()].clone()).collect();
            for action in [VerifyAction::VerifyOnly, VerifyAction::RecoverAndVerify, VerifyAction::RecoverOnly] {
                let res = verify(&ms, action, b"ctx").map_err(|e| format!("valid batch of {} rejected: {}", k, e))?;
                check_masks(&ms, &res, action != VerifyAction::VerifyOnly)?;
            }
            // one invalid member (proof of a different statement) at boundary positions
            let bad = make_member(&mut rng, 4, 1, 1, 1, false, None, b"ctx")?;
            for pos in [0usize, k / 2, k.saturating_sub(1), 255, 256] {
                if pos >= k { continue; }
                let mut v = ms.clone();
                v[pos] = Member { proof: bad.proof.clone(), ..v[pos].clone() };
                if v[pos].statement.commitments.len() != 1 { v[pos].statement = pool[0].statement.clone(); }
                if verify(&v, VerifyAction::VerifyOnly, b"ctx").is_ok() { return Err(format!("batch of {} with an invalid member at position {} was accepted", k, pos)); }
            }
            // a member that disagrees on bit length / extension degree, placed last (a different chunk when k > 256)
            for (bits2, d2) in [(8usize, 1usize), (4, 2)] {
                let odd = make_member(&mut rng, bits2, 1, 1, d2, false, None, b"ctx")?;
                let mut v = ms.clone(); v.push(odd.clone());
                if verify(&v, VerifyAction::VerifyOnly, b"ctx").is_ok() { return Err(format!("batch of {} whose last member has bits={} degree={} was accepted", k + 1, bits2, d2)); }
                let mut v2 = vec![odd]; v2.extend(ms.clone());
                if verify(&v2, VerifyAction::VerifyOnly, b"ctx").is_ok() { return Err(format!("batch of {} whose first member has bits={} degree={} was accepted", k + 1, bits2, d2)); }
            }
            Ok(())
        })));
    }
    // every ordering of seeded / unseeded / aggregated members in small batches (position-wise alignment of the masks)
    let id = format!("{}:batch:orders", tag);
    let idc = id.clone();
    out.push((id, Box::new(move || {
        let mut rng = rng_for(&idc);
        for d in [1usize, 2] {
            let s1 = make_member(&mut rng, 8, 1, 1, d, true, None, b"ctx")?;
            let s2 = make_member(&mut rng, 8, 1, 2, d, true, Some(2), b"ctx")?;
            let u1 = make_member(&mut rng, 8, 1, 1, d, false, None, b"ctx")?;
            let a2 = make_member(&mut rng, 8, 2, 2, d, true, None, b"ctx")?;
            let kinds = [s1, s2, u1, a2];
            for mask in 1usize..(1 << 8) {
                // sequences of length 1..=4 over the 4 kinds, encoded base 4 with a length prefix
                let len = 1 + (mask & 3); let mut code = mask >> 2; let mut v = vec![];
                for _ in 0..len { v.push(kinds[code & 3].clone()); code >>= 2; }
                for action in [VerifyAction::RecoverOnly, VerifyAction::RecoverAndVerify, VerifyAction::VerifyOnly] {
                    let res = verify(&v, action, b"ctx").map_err(|e| format!("valid mixed batch rejected in {:?}: {}", action, e))?;
                    check_masks(&v, &res, action != VerifyAction::VerifyOnly).map_err(|e| format!("{} in mode {:?} (batch kinds code {})", e, action, mask))?;
                }
            }
        }
        Ok(())
    })));
    // per-member transcript contexts: every proof must be checked against ITS transcript, also beyond the chunk limit
    for &k in &[2usize, 256, 257, 300] {
        let id = format!("{}:batch:contexts:k={}", tag, k);
        let idc = id.clone();
        out.push((id, Box::new(move || {
            let mut rng = rng_for(&idc);
            let a = make_member(&mut rng, 4, 1, 1, 1, false, None, b"ctxA")?;
            let b = make_member(&mut rng, 4, 1, 1, 1, false, None, b"ctxB")?;
            let run = |swap: Option<(usize, usize)>| -> Result<bool, String> {
                let mut st = vec![]; let mut pr = vec![]; let mut tr = vec![];
                for i in 0..k {
                    let use_a = (i * 5 + 1) % 3 != 0;
                    let m = if use_a { &a } else { &b };
                    st.push(m.statement.clone()); pr.push(m.proof.clone());
                    tr.push(Transcript::new(if use_a { b"ctxA" } else { b"ctxB" }));
                }
                if let Some((x, y)) = swap { tr.swap(x, y); }
                Ok(o_verify_batch(&mut tr, &st, &pr, VerifyAction::VerifyOnly).is_ok())
            };
            if !run(None)? { return Err(format!("batch of {} whose proofs match their own transcript contexts was rejected", k)); }
            // positions 0 (ctxB) and 1 (ctxA) have different contexts; so have k-1 / k-2 in general: find a differing pair at the end
            let ctx_is_a = |i: usize| (i * 5 + 1) % 3 != 0;
            let mut pairs = vec![(0usize, 1usize)];
            for i in (1..k).rev() { if ctx_is_a(i) != ctx_is_a(i - 1) { pairs.push((i - 1, i)); break; } }
            for (x, y) in pairs { if ctx_is_a(x) != ctx_is_a(y) && run(Some((x, y)))? { return Err(format!("batch of {} with the transcripts of members {} and {} swapped was accepted", k, x, y)); } }
            Ok(())
        })));
    }
    let id = format!("{}:batch:shapes", tag);
    out.push((id, Box::new(move || {
        let mut rng = rng_for("shapes");
        let a = make_member(&mut rng, 4, 1, 1, 1, false, None, b"ctx")?;
        let st = vec![a.statement.clone(), a.statement.clone()]; let pr = vec![a.proof.clone(), a.proof.clone()];
        let mut t2 = vec![Transcript::new(b"ctx"), Transcript::new(b"ctx")];
        if o_verify_batch(&mut [], &[] as &[RangeStatement<P>], &[] as &[RistrettoRangeProof], VerifyAction::VerifyOnly).is_ok() { return Err("empty batch accepted".into()); }
        if o_verify_batch(&mut t2, &st[..1], &pr, VerifyAction::VerifyOnly).is_ok() { return Err("length mismatch (statements) accepted".into()); }
        if o_verify_batch(&mut t2, &st, &pr[..1], VerifyAction::VerifyOnly).is_ok() { return Err("length mismatch (proofs) accepted".into()); }
        if o_verify_batch(&mut t2[..1], &st, &pr, VerifyAction::VerifyOnly).is_ok() { return Err("length mismatch (transcripts) accepted".into()); }
        Ok(())
    })));
    // a member whose proof claims another extension degree (tag byte and number of d1 scalars of degree d + 1) must make the batch fail at every position
    let id = format!("{}:batch:odd-degree-member", tag);
    out.push((id, Box::new(move || {
        let mut rng = rng_for("odd-degree");
        for d in [1usize, 2] {
            let ms: Vec<Member> = (0..3).map(|_| make_member(&mut rng, 8, 1, 1, d, false, None, b"ctx")).collect::<Result<_, _>>()?;
            let mut b = ms[0].proof.to_bytes();
            b[0] = (d + 1) as u8;
            let extra = Scalar::from(9u64).to_bytes();
            let at = 1 + 32 * d;
            let tail = b.split_off(at); b.extend_from_slice(&extra); b.extend_from_slice(&tail);
            let odd = match o_from_bytes(&b) { Ok(p) => p, Err(_) => continue };
            for pos in 0..3 {
                let mut v = ms.clone(); v[pos] = Member { proof: odd.clone(), ..ms[pos].clone() };
                for action in [VerifyAction::VerifyOnly, VerifyAction::RecoverAndVerify, VerifyAction::RecoverOnly] {
                    let r = catch_unwind(AssertUnwindSafe(|| verify(&v, action, b"ctx"))).map_err(|_| format!("panic on a batch whose member {} claims extension degree {}", pos, d + 1))?;
                    if r.is_ok() { return Err(format!("a batch whose member at position {} carries a proof of extension degree {} (statements: {}) was accepted in {:?}", pos, d + 1, d, action)); }
                }
            }
        }
        Ok(())
    })));
    // promises that do not fit in the bit length are refused wherever they sit, in every mode, with an error
    let id = format!("{}:batch:oversized-promise", tag);
    out.push((id, Box::new(move || {
        let mut rng = rng_for("oversized-promise");
        let small = make_member(&mut rng, 8, 1, 1, 1, false, None, b"ctx")?;
        let big = make_member(&mut rng, 8, 2, 2, 1, false, None, b"ctx")?;
        let spoil = |m: &Member, j: usize| -> Result<Member, String> {
            let mut pr = m.statement.minimum_value_promises.clone(); pr[j] = Some(256);
            let st = RangeStatement::init(m.statement.generators.clone(), m.statement.commitments.clone(), pr, None).map_err(|e| format!("{:?}", e))?;
            Ok(Member { statement: st, ..m.clone() })
        };
        let cases: Vec<(String, Vec<Member>)> = vec![
            ("single statement".into(), vec![spoil(&small, 0)?]),
            ("largest statement first, second promise".into(), vec![spoil(&big, 1)?, small.clone()]),
            ("largest statement last".into(), vec![small.clone(), spoil(&big, 0)?]),
            ("smaller statement next to the largest".into(), vec![big.clone(), spoil(&small, 0)?]),
        ];
        for (what, v) in cases {
            for action in [VerifyAction::VerifyOnly, VerifyAction::RecoverAndVerify, VerifyAction::RecoverOnly] {
                let st: Vec<_> = v.iter().map(|m| m.statement.clone()).collect();
                let pr: Vec<_> = v.iter().map(|m| m.proof.clone()).collect();
                let mut tr: Vec<_> = v.iter().map(|_| Transcript::new(b"ctx")).collect();
                match o_verify_batch(&mut tr, &st, &pr, action) {
                    Ok(_) => return Err(format!("a promise of 2^bits was not refused ({}, {:?})", what, action)),
                    Err(_) => {}
                }
            }
        }
        Ok(())
    })));
    // C08: equal and opposite defects in two members must not cancel
    for d in [1usize, 3] {
        let id = format!("{}:batch:cancel:d={}", tag, d);
        let idc = id.clone();
        out.push((id, Box::new(move || {
            let mut rng = rng_for(&idc);
            let a = make_member(&mut rng, 8, 1, 1, d, false, None, b"ctx")?;
            let b = make_member(&mut rng, 8, 1, 1, d, false, None, b"ctx")?;
            let good = make_member(&mut rng, 8, 1, 1, d, false, None, b"ctx")?;
            for k in 0..d {
                let delta = Scalar::from(5u64);
                let shift = |m: &Member, plus: bool| -> Member {
                    let mut bytes = m.proof.to_bytes();
                    let off = 1 + 32 * k;
                    let mut sb = [0u8; 32]; sb.copy_from_slice(&bytes[off..off + 32]);
                    let s = Scalar::from_canonical_bytes(sb).unwrap();
                    let s2 = if plus { s + delta } else { s - delta };
                    bytes[off..off + 32].copy_from_slice(s2.as_bytes());
                    Member { proof: o_from_bytes(&bytes).unwrap(), ..m.clone() }
                };
                let (a2, b2) = (shift(&a, true), shift(&b, false));
                for v in [vec![a2.clone(), b2.clone()], vec![b2.clone(), a2.clone()], vec![a2.clone(), good.clone(), b2.clone()]] {
                    for action in [VerifyAction::VerifyOnly, VerifyAction::RecoverAndVerify] {
                        if verify(&v, action, b"ctx").is_ok() { return Err(format!("batch with two invalid members (offsetting d1[{}]) was accepted in {:?}", k, action)); }
                    }
                }
            }
            Ok(())
        })));
    }
}

fn fam_binding(tag: &str, out: &mut Vec<Case>) {
    // C04 / C05 / C07 / C02: any single alteration of an accepted triple must be rejected with an Err (never a panic)
    for &(bits, m, d) in &[(8usize, 1usize, 1usize), (4, 2, 2), (2, 4, 3), (16, 1, 6)] {
        let id = format!("{}:binding:bits={},m={},d={}", tag, bits, m, d);
        let idc = id.clone();
        out.push((id, Box::new(move || {
            let mut rng = rng_for(&idc);
            let mem = make_member(&mut rng, bits, m, m, d, false, Some(2), b"ctx")?;
            verify(&[mem.clone()], VerifyAction::VerifyOnly, b"ctx").map_err(|e| format!("honest proof rejected: {}", e))?;
            // transcript context
            if verify(&[mem.clone()], VerifyAction::VerifyOnly, b"other").is_ok() { return Err("accepted under a different transcript context".into()); }
            // every proof slot
            let slots = (mem.proof.to_bytes().len() - 1) / 32;
            for s in 0..slots {
                if let Some(p2) = tamper(&mem.proof, s) {
                    if p2 == mem.proof { continue; }
                    let v = Member { proof: p2, ..mem.clone() };
                    for action in [VerifyAction::VerifyOnly, VerifyAction::RecoverAndVerify] {
                        if verify(&[v.clone()], action, b"ctx").is_ok() { return Err(format!("accepted with proof element {} replaced ({:?})", s, action)); }
                    }
                }
            }
            // commitments: replace one, swap two
            let st = &mem.statement;
            let rebuild = |c: Vec<P>, p: Vec<Option<u64>>| RangeStatement::init(st.generators.clone(), c, p, None).map_err(|e| format!("{:?}", e));
            for j in 0..m {
                let mut c = st.commitments.clone(); c[j] = c[j] + st.generators.h_base();
                let v = Member { statement: rebuild(c, st.minimum_value_promises.clone())?, ..mem.clone() };
                for action in [VerifyAction::VerifyOnly, VerifyAction::RecoverAndVerify] {
                    if verify(&[v.clone()], action, b"ctx").is_ok() { return Err(format!("accepted with commitment {} altered ({:?})", j, action)); }
                }
                let mut p = st.minimum_value_promises.clone(); p[j] = Some(p[j].unwrap_or(0) + 1);
                let v = Member { statement: rebuild(st.commitments.clone(), p)?, ..mem.clone() };
                if verify(&[v], VerifyAction::VerifyOnly, b"ctx").is_ok() { return Err(format!("accepted with promise {} altered", j)); }
            }
            if m >= 2 && st.commitments[0] != st.commitments[1] {
                let mut c = st.commitments.clone(); c.swap(0, 1);
                let v = Member { statement: rebuild(c, st.minimum_value_promises.clone())?, ..mem.clone() };
                if verify(&[v], VerifyAction::VerifyOnly, b"ctx").is_ok() { return Err("accepted with two commitments swapped".into()); }
            }
            // absent promise == zero promise
            let mem0 = make_member(&mut rng, bits, m, m, d, false, None, b"ctx")?;
            let v = Member { statement: RangeStatement::init(mem0.statement.generators.clone(), mem0.statement.commitments.clone(), vec![Some(0); m], None).map_err(|e| format!("{:?}", e))?, ..mem0.clone() };
            verify(&[v], VerifyAction::VerifyOnly, b"ctx").map_err(|e| format!("None promises vs Some(0) promises differ: {}", e))?;
            Ok(())
        })));
    }
}

fn accept_ref(b: &[u8]) -> bool {
    if b.is_empty() { return false; }
    let d = b[0] as usize;
    if !(1..=6).contains(&d) { return false; }
    if (b.len() - 1) % 32 != 0 { return false; }
    let cnt = (b.len() - 1) / 32;
    if cnt < d + 5 + 2 || (cnt - d - 5) % 2 != 0 { return false; }
    let canon = |k: usize| { let mut s = [0u8; 32]; s.copy_from_slice(&b[1 + 32 * k..1 + 32 * k + 32]); bool::from(Scalar::from_canonical_bytes(s).is_some()) };
    (0..d).all(canon) && canon(d + 3) && canon(d + 4)
}
fn fam_codec(tag: &str, out: &mut Vec<Case>) {
    let id = format!("{}:codec:structured", tag);
    out.push((id, Box::new(move || {
        let mut rng = rng_for("codec");
        // the group order l, l+1, 2^256-1 : non-canonical scalar encodings
        let l: [u8; 32] = [0xed, 0xd3, 0xf5, 0x5c, 0x1a, 0x63, 0x12, 0x58, 0xd6, 0x9c, 0xf7, 0xa2, 0xde, 0xf9, 0xde, 0x14, 0, 0, 0, 0, 0, 0, 0, 0, 0, 0, 0, 0, 0, 0, 0, 0x10];
        let mut l1 = l; l1[0] = 0xee;
        let bad_scalars = [l, l1, [0xffu8; 32]];
        for first in 0u16..=255 {
            for cnt in 0usize..=14 {
                for extra in [0usize, 1, 31] {
                    let mut b = vec![first as u8];
                    for _ in 0..cnt { let s = Scalar::random(&mut rng); b.extend_from_slice(s.as_bytes()); }
                    b.extend(std::iter::repeat(0u8).take(extra));
                    let mut variants = vec![b.clone()];
                    if (1..=6).contains(&(first as usize)) && extra == 0 {
                        for slot in 0..cnt { for bs in bad_scalars.iter() { let mut v = b.clone(); v[1 + 32 * slot..1 + 32 * slot + 32].copy_from_slice(bs); variants.push(v); } }
                    }
                    for v in variants {
                        let got = catch_unwind(AssertUnwindSafe(|| o_from_bytes(&v))).map_err(|_| format!("from_bytes panicked on {} bytes, first byte {}", v.len(), first))?;
                        let exp = accept_ref(&v);
                        if got.is_ok() != exp { return Err(format!("from_bytes {} a string with first byte {} and {} elements (+{} bytes); exact acceptance set says {}", if got.is_ok() { "accepted" } else { "rejected" }, first, cnt, extra, exp)); }
                        if let Ok(p) = got {
                            if p.to_bytes() != v { return Err(format!("re-encoding differs (first byte {}, {} elements)", first, cnt)); }
                            let ser = bincode::serialize(&p).map_err(|e| format!("{:?}", e))?;
                            let p2: RistrettoRangeProof = bincode::deserialize(&ser).map_err(|e| format!("serde round trip: {:?}", e))?;
                            if p2 != p { return Err("serde round trip changed the proof".into()); }
                        }
                        let hdr = RistrettoRangeProof::extension_degree_from_proof_bytes(&v);
                        if hdr.is_ok() != (!v.is_empty() && (1..=6).contains(&v[0])) { return Err(format!("extension_degree_from_proof_bytes disagrees on first byte {}", first)); }
                    }
                }
            }
        }
        if o_from_bytes(&[]).is_ok() { return Err("empty string accepted".into()); }
        Ok(())
    })));
    let id = format!("{}:codec:serde-set", tag);
    out.push((id, Box::new(move || {
        // the serde form (bincode: u64 length prefix + bytes) accepts and produces exactly the byte strings of from_bytes / to_bytes, for every size
        for d in 0usize..=7 {
            for cnt in 0usize..=70 {
                for extra in [0usize, 1] {
                    let mut v = vec![d as u8];
                    v.extend(std::iter::repeat(0u8).take(32 * cnt + extra));
                    let mut ser = (v.len() as u64).to_le_bytes().to_vec();
                    ser.extend_from_slice(&v);
                    let a = o_from_bytes(&v);
                    let b = catch_unwind(AssertUnwindSafe(|| bincode::deserialize::<RistrettoRangeProof>(&ser))).map_err(|_| format!("serde deserialize panicked ({} elements)", cnt))?;
                    if a.is_ok() != b.is_ok() {
                        return Err(format!("serde form {} a byte string (first byte {}, {} elements, +{} bytes) that from_bytes {}", if b.is_ok() { "accepts" } else { "refuses" }, d, cnt, extra, if a.is_ok() { "accepts" } else { "refuses" }));
                    }
                    if let (Ok(p), Ok(q)) = (a, b) {
                        if p != q { return Err("serde form decodes to a different proof".into()); }
                        let out = bincode::serialize(&p).map_err(|e| format!("{:?}", e))?;
                        if out != ser { return Err(format!("serde form produces other bytes than to_bytes ({} elements)", cnt)); }
                    }
                }
            }
        }
        Ok(())
    })));
    // a data format that hands the visitor a sequence with an absurd size hint instead of a byte string: must end in an error, not in a panic
    let id = format!("{}:codec:hostile-deserializer", tag);
    out.push((id, Box::new(move || {
        use serde::de::{DeserializeSeed, Deserializer, IntoDeserializer, SeqAccess, Visitor};
        struct HostileSeq { left: usize, claim: usize }
        impl<'de> SeqAccess<'de> for HostileSeq {
            type Error = serde::de::value::Error;
            fn next_element_seed<T: DeserializeSeed<'de>>(&mut self, seed: T) -> Result<Option<T::Value>, Self::Error> {
                if self.left == 0 { return Ok(None); }
                self.left -= 1;
                seed.deserialize(1u8.into_deserializer()).map(Some)
            }
            fn size_hint(&self) -> Option<usize> { Some(self.claim) }
        }
        struct HostileDe { claim: usize }
        impl<'de> Deserializer<'de> for HostileDe {
            type Error = serde::de::value::Error;
            fn deserialize_any<V: Visitor<'de>>(self, v: V) -> Result<V::Value, Self::Error> { v.visit_seq(HostileSeq { left: 8, claim: self.claim }) }
            serde::forward_to_deserialize_any! { bool i8 i16 i32 i64 i128 u8 u16 u32 u64 u128 f32 f64 char str string bytes byte_buf option unit unit_struct newtype_struct seq tuple tuple_struct map struct enum identifier ignored_any }
        }
        for claim in [usize::MAX, usize::MAX / 2 + 1] {
            let r = catch_unwind(AssertUnwindSafe(|| <RistrettoRangeProof as serde::Deserialize>::deserialize(HostileDe { claim })))
                .map_err(|_| format!("deserialising from a sequence that claims {} elements panicked", claim))?;
            obs("hostile-de", &[r.is_ok() as u8]);
            if r.is_ok() { return Err("a proof was deserialised from eight bytes".into()); }
        }
        Ok(())
    })));
    let id = format!("{}:codec:prover-outputs", tag);
    out.push((id, Box::new(move || {
        let mut rng = rng_for("codec2");
        for &(bits, m, d) in &[(2usize, 1usize, 1usize), (4, 1, 2), (8, 2, 3), (64, 1, 6), (4, 8, 1)] {
            let mem = make_member(&mut rng, bits, m, m, d, false, None, b"ctx")?;
            let b = mem.proof.to_bytes();
            let rounds = (bits * m).trailing_zeros() as usize;
            if b.len() != 1 + 32 * (5 + d + 2 * rounds) { return Err(format!("encoded length {} for bits={} m={} d={}", b.len(), bits, m, d)); }
            let p2 = o_from_bytes(&b).map_err(|e| format!("prover output rejected by from_bytes: {:?}", e))?;
            if p2 != mem.proof { return Err("decode(encode(p)) != p".into()); }
        }
        Ok(())
    })));
}

fn fam_ctors(tag: &str, out: &mut Vec<Case>) {
    let id = format!("{}:ctors", tag);
    out.push((id, Box::new(move || {
        let pow2 = |x: usize| x != 0 && x & (x - 1) == 0;
        for v in 0usize..=2048 { obs("deg", &[ExtensionDegree::try_from(v).is_ok() as u8]); if ExtensionDegree::try_from(v).is_ok() != (1..=6).contains(&v) { return Err(format!("ExtensionDegree::try_from({}usize)", v)); } }
        for v in [usize::MAX, usize::MAX - 254, 1 << 32, (1 << 32) + 3, 65537 + 1] { if ExtensionDegree::try_from(v).is_ok() { return Err(format!("ExtensionDegree::try_from({}usize) accepted", v)); } }
        for v in 0u8..=255 { let r = ExtensionDegree::try_from(v); if r.is_ok() != (1..=6).contains(&v) { return Err(format!("ExtensionDegree::try_from({}u8)", v)); } if let Ok(x) = r { if x as u8 != v { return Err(format!("try_from({}u8) gave {:?}", v, x)); } } }
        let pc = create_pedersen_gens_with_extension_degree(deg(2));
        for bits in 0usize..=130 { for cap in [0usize, 1, 2, 3, 4, 5, 8, 16, 17, 64, 100, 128, 130] {
            let ok = RangeParameters::init(bits, cap, pc.clone());
            obs("params", &[ok.is_ok() as u8]);
            let exp = pow2(bits) && bits <= 64 && pow2(cap);
            if ok.is_ok() != exp { return Err(format!("RangeParameters::init({}, {})", bits, cap)); }
            if let Ok(p) = ok { if p.bit_length() != bits || p.max_aggregation_factor() != cap { return Err("RangeParameters::init adjusted its arguments".into()); } }
        } }
        let params = RangeParameters::init(4, 8, pc.clone()).unwrap();
        let c = params.pc_gens().commit(&Scalar::ONE, &[Scalar::ONE, Scalar::ONE]).map_err(|e| format!("{:?}", e))?;
        for n in 0usize..=17 { for np in [n, n + 1, n.saturating_sub(1)] { for seed in [false, true] {
            let r = RangeStatement::init(params.clone(), vec![c; n], vec![None; np], if seed { Some(Scalar::ONE) } else { None });
            obs("statement", &[r.is_ok() as u8]);
            let exp = pow2(n) && np == n && n <= 8 && (!seed || n == 1);
            if r.is_ok() != exp { return Err(format!("RangeStatement::init with {} commitments, {} promises, seed {}", n, np, seed)); }
        } } }
        // witness shapes: up to 3 openings, blinding counts 0..=8
        for a in 0usize..=8 { for b in 0usize..=9 { for cc in 0usize..=9 {
            let mut shape = vec![a]; if b < 9 { shape.push(b); if cc < 9 { shape.push(cc); } }
            let ops: Vec<_> = shape.iter().map(|&n| CommitmentOpening::new(1, vec![Scalar::ONE; n])).collect();
            let r = RangeWitness::init(ops);
            obs("witness", &[r.is_ok() as u8]);
            let exp = (1..=6).contains(&shape[0]) && shape.iter().all(|&n| n == shape[0]);
            if r.is_ok() != exp { return Err(format!("RangeWitness::init with opening shape {:?}", shape)); }
            if let Ok(w) = r { if w.extension_degree as usize != shape[0] { return Err(format!("opening shape {:?} accepted with extension degree {:?}", shape, w.extension_degree)); } }
        } } }
        if RangeWitness::init(vec![]).is_ok() { return Err("empty witness accepted".into()); }
        for d in 1..=6usize { for n in 0usize..=8 {
            if ExtendedMask::assign(deg(d), vec![Scalar::ONE; n]).is_ok() != (n == d) { return Err(format!("ExtendedMask::assign(degree {}, {} blindings)", d, n)); }
            let pcd = create_pedersen_gens_with_extension_degree(deg(d));
            let r = catch_unwind(AssertUnwindSafe(|| pcd.commit(&Scalar::ONE, &vec![Scalar::ONE; n]))).map_err(|_| format!("commit panicked (degree {}, {} blindings)", d, n))?;
            if r.is_ok() != (1 <= n && n <= d) { return Err(format!("PedersenGens::commit(degree {}, {} blindings)", d, n)); }
        } }
        Ok(())
    })));
}

fn fam_prover(tag: &str, out: &mut Vec<Case>) {
    // C06 / C07: the prover refuses exactly the invalid witnesses (each single violation at each position)
    for &(bits, m, d) in &[(8usize, 1usize, 1usize), (4, 4, 2), (64, 2, 1), (2, 2, 6)] {
        let id = format!("{}:prover:bits={},m={},d={}", tag, bits, m, d);
        let idc = id.clone();
        out.push((id, Box::new(move || {
            let mut rng = rng_for(&idc);
            let pc = create_pedersen_gens_with_extension_degree(deg(d));
            let params = RangeParameters::init(bits, m, pc).map_err(|e| format!("{:?}", e))?;
            let maxv: u64 = if bits >= 64 { u64::MAX } else { (1u64 << bits) - 1 };
            let base_v: Vec<u64> = (0..m).map(|j| if j % 2 == 0 { maxv } else { maxv / 2 }).collect();
            let base_r: Vec<Vec<Scalar>> = (0..m).map(|_| (0..d).map(|_| Scalar::random(&mut rng)).collect()).collect();
            let run = |vals: &[u64], commit_vals: &[u64], rs: &[Vec<Scalar>], proms: Vec<Option<u64>>, wd: Option<usize>| -> Result<bool, String> {
                let cs: Vec<P> = (0..m).map(|j| params.pc_gens().commit(&Scalar::from(commit_vals[j]), &base_r[j]).unwrap()).collect();
                let st = RangeStatement::init(params.clone(), cs, proms, None).map_err(|e| format!("{:?}", e))?;
                let ops: Vec<_> = (0..m).map(|j| CommitmentOpening::new(vals[j], match wd { Some(n) => vec![Scalar::ONE; n], None => rs[j].clone() })).collect();
                let w = match RangeWitness::init(ops) { Ok(w) => w, Err(_) => return Ok(false) };
                let mut r2 = ChaCha12Rng::seed_from_u64(1);
                let res = catch_unwind(AssertUnwindSafe(|| o_prove(&mut Transcript::new(b"ctx"), &st, &w, &mut r2))).map_err(|_| "prove_with_rng panicked".to_string())?;
                if let Ok(p) = &res {
                    let mut t = [Transcript::new(b"ctx")];
                    o_verify_batch(&mut t, &[st.clone()], &[p.clone()], VerifyAction::VerifyOnly).map_err(|e| format!("the prover returned a proof that does not verify: {:?}", e))?;
                }
                Ok(res.is_ok())
            };
            if !run(&base_v, &base_v, &base_r, vec![None; m], None)? { return Err("valid witness refused".into()); }
            if !run(&base_v, &base_v, &base_r, base_v.iter().map(|v| Some(*v)).collect(), None)? { return Err("promise == value refused".into()); }
            if !run(&base_v, &base_v, &base_r, vec![Some(0); m], None)? { return Err("promise 0 refused".into()); }
            for j in 0..m {
                if bits < 64 { let mut v = base_v.clone(); v[j] = maxv + 1; if run(&v, &v, &base_r, vec![None; m], None)? { return Err(format!("value 2^bits accepted at position {}", j)); } }
                let mut v = base_v.clone(); v[j] = v[j].wrapping_sub(1) & maxv; if run(&v, &base_v, &base_r, vec![None; m], None)? { return Err(format!("opening that does not match commitment {} accepted", j)); }
                if base_v[j] < u64::MAX { let mut p: Vec<Option<u64>> = vec![None; m]; p[j] = Some(base_v[j] + 1); if run(&base_v, &base_v, &base_r, p, None)? { return Err(format!("promise value+1 accepted at position {}", j)); } }
                let mut r = base_r.clone(); r[j][d - 1] += Scalar::ONE; if run(&base_v, &base_v, &r, vec![None; m], None)? { return Err(format!("wrong blinding accepted at position {}", j)); }
            }
            if d < 6 && run(&base_v, &base_v, &base_r, vec![None; m], Some(d + 1))? { return Err("witness of a different extension degree accepted".into()); }
            // valid openings with special blinding factors (all zero; one zero component; reversed order when d > 1): the commitment is computed here from the public
            // generators (v*H + sum r_k*G_k), not with the crate's `commit`, and the prover must accept the witness
            for kind in 0..3usize {
                let rs: Vec<Vec<Scalar>> = (0..m).map(|j| (0..d).map(|k| match kind { 0 => Scalar::ZERO, 1 => if k == (j % d) { Scalar::ZERO } else { base_r[j][k] }, _ => base_r[j][d - 1 - k] + Scalar::from(k as u64) }).collect()).collect();
                let pcg = params.pc_gens();
                let cs: Vec<P> = (0..m).map(|j| { let mut c = Scalar::from(base_v[j]) * pcg.h_base; for k in 0..d { c += rs[j][k] * pcg.g_base_vec[k]; } c }).collect();
                let st = RangeStatement::init(params.clone(), cs, vec![None; m], None).map_err(|e| format!("{:?}", e))?;
                let ops: Vec<_> = (0..m).map(|j| CommitmentOpening::new(base_v[j], rs[j].clone())).collect();
                let w = RangeWitness::init(ops).map_err(|e| format!("{:?}", e))?;
                let mut r2 = ChaCha12Rng::seed_from_u64(4);
                let what = ["all blinding factors zero", "one blinding component zero", "distinct blinding components"][kind];
                let p = catch_unwind(AssertUnwindSafe(|| o_prove(&mut Transcript::new(b"ctx"), &st, &w, &mut r2))).map_err(|_| format!("prove_with_rng panicked on a valid witness ({})", what))?
                    .map_err(|e| format!("valid witness refused ({}; commitments computed as v*H + sum r_k*G_k): {:?}", what, e))?;
                let mut t = [Transcript::new(b"ctx")];
                o_verify_batch(&mut t, &[st.clone()], &[p], VerifyAction::VerifyOnly).map_err(|e| format!("the prover returned a proof that does not verify ({}): {:?}", what, e))?;
            }
            // a value of 2^bits or more stays invalid when a promise brings value - promise below 2^bits
            if bits < 32 {
                for j in 0..m {
                    let mut v = base_v.clone(); v[j] = maxv + 45;
                    let mut p: Vec<Option<u64>> = vec![None; m]; p[j] = Some(100.min(maxv));
                    if run(&v, &v, &base_r, p, None)? { return Err(format!("value {} (>= 2^{}) accepted at position {} because value - promise fits", maxv + 45, bits, j)); }
                }
            }
            // a witness with a different number of openings than the statement has commitments (more, and fewer)
            for extra in [1usize, m] {
                let cs: Vec<P> = (0..m).map(|j| params.pc_gens().commit(&Scalar::from(base_v[j]), &base_r[j]).unwrap()).collect();
                let st = RangeStatement::init(params.clone(), cs, vec![None; m], None).map_err(|e| format!("{:?}", e))?;
                let mut ops: Vec<_> = (0..m).map(|j| CommitmentOpening::new(base_v[j], base_r[j].clone())).collect();
                for _ in 0..extra { ops.push(CommitmentOpening::new(1, base_r[0].clone())); }
                if let Ok(w) = RangeWitness::init(ops) {
                    let mut r2 = ChaCha12Rng::seed_from_u64(2);
                    let res = catch_unwind(AssertUnwindSafe(|| o_prove(&mut Transcript::new(b"ctx"), &st, &w, &mut r2))).map_err(|_| "prove_with_rng panicked on a witness with too many openings".to_string())?;
                    if res.is_ok() { return Err(format!("a witness with {} openings was accepted for {} commitments", m + extra, m)); }
                }
            }
            if m > 1 {
                let cs: Vec<P> = (0..m).map(|j| params.pc_gens().commit(&Scalar::from(base_v[j]), &base_r[j]).unwrap()).collect();
                let st = RangeStatement::init(params.clone(), cs, vec![None; m], None).map_err(|e| format!("{:?}", e))?;
                let ops: Vec<_> = (0..m - 1).map(|j| CommitmentOpening::new(base_v[j], base_r[j].clone())).collect();
                if let Ok(w) = RangeWitness::init(ops) {
                    let mut r2 = ChaCha12Rng::seed_from_u64(3);
                    let res = catch_unwind(AssertUnwindSafe(|| o_prove(&mut Transcript::new(b"ctx"), &st, &w, &mut r2))).map_err(|_| "prove_with_rng panicked on a witness with too few openings".to_string())?;
                    if res.is_ok() { return Err(format!("a witness with {} openings was accepted for {} commitments", m - 1, m)); }
                }
            }
            Ok(())
        })));
    }
}

fn fam_panics(tag: &str, out: &mut Vec<Case>) {
    // C16: hostile shapes never panic
    let id = format!("{}:panics", tag);
    out.push((id, Box::new(move || {
        let mut rng = rng_for("panics");
        let probe = |st: Vec<RangeStatement<P>>, pr: Vec<RistrettoRangeProof>, what: String| -> Result<(), String> {
            for action in [VerifyAction::VerifyOnly, VerifyAction::RecoverAndVerify, VerifyAction::RecoverOnly] {
                let mut t: Vec<_> = st.iter().map(|_| Transcript::new(b"ctx")).collect();
                catch_unwind(AssertUnwindSafe(|| { let _ = o_verify_batch(&mut t, &st, &pr, action); })).map_err(|_| format!("verify_batch panicked: {}", what))?;
            }
            Ok(())
        };
        let a = make_member(&mut rng, 8, 2, 4, 2, false, None, b"ctx")?;
        let bytes = a.proof.to_bytes();
        // change the number of rounds, the extension tag, truncate / extend
        for tag_b in 1u8..=6 { for add in [-4i32, -2, 0, 2, 4, 20, 120, 122, 124, 126, 128, 130, 2000] {
            let mut b = bytes.clone(); b[0] = tag_b;
            let dd = bytes[0] as usize; let pt = bytes[1 + 32 * dd..33 + 32 * dd].to_vec(); /* the encoding of A: a valid non-identity point */
            if add < 0 { b.truncate(b.len() - 32 * (-add) as usize); } else { for _ in 0..add { b.extend_from_slice(&pt); } }
            if let Ok(p) = o_from_bytes(&b) { probe(vec![a.statement.clone()], vec![p], format!("tag {} rounds {:+}", tag_b, add / 2))?; }
        } }
        // mixed capacities / aggregation in one batch, proof of another statement
        let b2 = make_member(&mut rng, 8, 1, 8, 2, true, None, b"ctx")?;
        probe(vec![a.statement.clone(), b2.statement.clone()], vec![b2.proof.clone(), a.proof.clone()], "swapped proofs".into())?;
        probe(vec![b2.statement.clone(), a.statement.clone()], vec![b2.proof.clone(), a.proof.clone()], "mixed capacities".into())?;
        // inconsistent Pedersen generators that pass the validating constructors
        for keep in 0..=3usize {
            let mut pc = create_pedersen_gens_with_extension_degree(deg(2));
            while pc.g_base_vec.len() > keep { pc.g_base_vec.pop(); pc.g_base_compressed_vec.pop(); }
            while pc.g_base_vec.len() < keep { pc.g_base_vec.push(RistrettoPoint::identity()); pc.g_base_compressed_vec.push(RistrettoPoint::identity().compress()); }
            if let Ok(params) = RangeParameters::init(8, 4, pc) { if let Ok(st) = RangeStatement::init(params, a.statement.commitments.clone(), vec![None; 2], None) {
                probe(vec![st], vec![a.proof.clone()], format!("degree-2 generators with {} blinding generators", keep))?;
            } }
        }
        Ok(())
    })));
}

fn fam_gens(tag: &str, out: &mut Vec<Case>) {
    // independent recomputation of the documented derivations (sha3 crate directly):
    //   vector generator j of party i = from_uniform_bytes(SHAKE256("GeneratorsChain" || c || le32(i))[64j .. 64j+64]),  c = 'G' / 'H'
    //   blinding generator k          = from_uniform_bytes(SHA3-512("RISTRETTO_MASKING_BASEPOINT_" || decimal(k + 1))), k = 0..5,   value generator = Ristretto basepoint
    let id = format!("{}:gens:derivation", tag);
    out.push((id, Box::new(move || {
        use digest::{ExtendableOutput, Update, XofReader, Digest};
        let chain = |c: u8, party: u32, n: usize| -> Vec<RistrettoPoint> {
            let mut sh = sha3::Shake256::default();
            Update::update(&mut sh, b"GeneratorsChain");
            let mut label = vec![c]; label.extend_from_slice(&party.to_le_bytes());
            Update::update(&mut sh, &label);
            let mut rd = sh.finalize_xof();
            (0..n).map(|_| { let mut b = [0u8; 64]; rd.read(&mut b); RistrettoPoint::from_uniform_bytes(&b) }).collect()
        };
        for &(bits, cap) in &[(8usize, 1usize), (4, 4), (64, 2)] {
            let p = RangeParameters::init(bits, cap, create_pedersen_gens_with_extension_degree(deg(6))).map_err(|e| format!("{:?}", e))?;
            let g: Vec<_> = p.gi_base_iter().cloned().collect(); let h: Vec<_> = p.hi_base_iter().cloned().collect();
            for party in 0..cap {
                let (rg, rh) = (chain(b'G', party as u32, bits), chain(b'H', party as u32, bits));
                for j in 0..bits {
                    if g[party * bits + j] != rg[j] { return Err(format!("G generator {} of party {} is not the documented SHAKE256 derivation", j, party)); }
                    if h[party * bits + j] != rh[j] { return Err(format!("H generator {} of party {} is not the documented SHAKE256 derivation", j, party)); }
                }
            }
            if *p.h_base() != curve25519_dalek::constants::RISTRETTO_BASEPOINT_POINT { return Err("the value generator is not the Ristretto basepoint".into()); }
            for (k, gk) in p.g_bases().iter().enumerate() {
                let mut hs = sha3::Sha3_512::new();
                Digest::update(&mut hs, format!("RISTRETTO_MASKING_BASEPOINT_{}", k + 1).as_bytes());
                let mut b = [0u8; 64]; b.copy_from_slice(&hs.finalize());
                if *gk != RistrettoPoint::from_uniform_bytes(&b) { return Err(format!("blinding generator {} is not the documented SHA3-512 derivation", k)); }
            }
        }
        Ok(())
    })));
    let id = format!("{}:gens", tag);
    out.push((id, Box::new(move || {
        for &(bits, cap) in &[(4usize, 1usize), (4, 4), (8, 2), (64, 2)] {
            let p = RangeParameters::init(bits, cap, create_pedersen_gens_with_extension_degree(deg(6))).map_err(|e| format!("{:?}", e))?;
            let big = RangeParameters::init(bits, cap * 4, create_pedersen_gens_with_extension_degree(deg(6))).map_err(|e| format!("{:?}", e))?;
            let (g, h): (Vec<_>, Vec<_>) = (p.gi_base_iter().cloned().collect(), p.hi_base_iter().cloned().collect());
            for x in g.iter().chain(h.iter()).chain(p.g_bases().iter()) { obs("gen", x.compress().as_bytes()); }
            if g.len() != bits * cap || h.len() != bits * cap { return Err("wrong number of vector generators".into()); }
            let gb: Vec<_> = big.gi_base_iter().cloned().collect(); let hb: Vec<_> = big.hi_base_iter().cloned().collect();
            if gb[..g.len()] != g[..] || hb[..h.len()] != h[..] { return Err(format!("generators depend on the capacity (bits {}, capacity {} vs {})", bits, cap, cap * 4)); }
            let mut all: Vec<P> = g.iter().chain(h.iter()).cloned().collect(); all.push(*p.h_base()); all.extend(p.g_bases().iter().cloned());
            for (i, x) in all.iter().enumerate() { if *x == RistrettoPoint::identity() { return Err(format!("generator {} is the identity", i)); } for y in all[..i].iter() { if x == y { return Err(format!("generator {} repeats an earlier one", i)); } } }
            if p.h_base().compress() != p.h_base_compressed() { return Err("h_base_compressed is not the encoding of h_base".into()); }
            for (a, b) in p.g_bases().iter().zip(p.g_bases_compressed().iter()) { if a.compress() != *b { return Err("g_bases_compressed mismatch".into()); } }
        }
        Ok(())
    })));
}

fn fam_modes(tag: &str, out: &mut Vec<Case>) {
    // C10: the verdict is the same with or without a seed and in every verifying mode; a wrong seed gives a wrong mask, never an error
    for d in [1usize, 3] {
        let id = format!("{}:modes:d={}", tag, d);
        let idc = id.clone();
        out.push((id, Box::new(move || {
            let mut rng = rng_for(&idc);
            let good = make_member(&mut rng, 8, 1, 1, d, true, None, b"ctx")?;
            let other = make_member(&mut rng, 8, 1, 1, d, true, None, b"ctx")?;
            let mut variants: Vec<(String, Member, bool)> = vec![("valid".into(), good.clone(), true)];
            variants.push(("proof of another statement".into(), Member { proof: other.proof.clone(), ..good.clone() }, false));
            for s in [0usize, d, d + 3, d + 5] { if let Some(p2) = tamper(&good.proof, s) { if p2 != good.proof { variants.push((format!("element {} replaced", s), Member { proof: p2, ..good.clone() }, false)); } } }
            for (what, mem, valid) in variants {
                for seeded in [true, false] {
                    let st = RangeStatement::init(mem.statement.generators.clone(), mem.statement.commitments.clone(), mem.statement.minimum_value_promises.clone(),
                        if seeded { mem.statement.seed_nonce } else { None }).map_err(|e| format!("{:?}", e))?;
                    let m2 = Member { statement: st, seeded, ..mem.clone() };
                    for action in [VerifyAction::VerifyOnly, VerifyAction::RecoverAndVerify] {
                        let r = verify(&[m2.clone()], action, b"ctx");
                        if r.is_ok() != valid { return Err(format!("verdict differs: {} is {} with seed present {}, action {:?}", what, if r.is_ok() { "accepted" } else { "rejected" }, seeded, action)); }
                    }
                    // mixed batch: an invalid member next to a valid one
                    if !valid { if verify(&[good.clone(), m2.clone()], VerifyAction::RecoverAndVerify, b"ctx").is_ok() { return Err(format!("batch with an invalid member ({}) accepted in RecoverAndVerify, seed present {}", what, seeded)); } }
                }
            }
            // wrong seeds: one bit flipped at every byte position
            let truth = good.blindings.clone();
            let sd = good.statement.seed_nonce.unwrap().to_bytes();
            for byte in 0..32usize { for bit in [0u8, 3] {
                let mut b = sd; b[byte] ^= 1 << bit; if byte == 31 { b[31] &= 0x0f; }
                let s2 = match Option::<Scalar>::from(Scalar::from_canonical_bytes(b)) { Some(x) => x, None => continue };
                if s2 == good.statement.seed_nonce.unwrap() { continue; }
                let st = RangeStatement::init(good.statement.generators.clone(), good.statement.commitments.clone(), good.statement.minimum_value_promises.clone(), Some(s2)).map_err(|e| format!("{:?}", e))?;
                let m2 = Member { statement: st, ..good.clone() };
                let r1 = verify(&[m2.clone()], VerifyAction::RecoverOnly, b"ctx").map_err(|e| format!("a wrong seed caused an error: {}", e))?;
                let r2 = verify(&[m2.clone()], VerifyAction::RecoverAndVerify, b"ctx").map_err(|e| format!("a wrong seed changed the verdict: {}", e))?;
                if r1 != r2 { return Err("RecoverOnly and RecoverAndVerify return different masks".into()); }
                if let Some(Some(mask)) = r1.first() { if mask.blindings().map_err(|e| format!("{:?}", e))? == truth { return Err(format!("a wrong seed recovered the true mask (byte {} tweaked)", byte)); } } else { return Err("no mask under a wrong seed".into()); }
            } }
            Ok(())
        })));
    }
}

struct ConstRng(u8);
impl RngCore for ConstRng {
    fn next_u32(&mut self) -> u32 { u32::from_le_bytes([self.0; 4]) }
    fn next_u64(&mut self) -> u64 { u64::from_le_bytes([self.0; 8]) }
    fn fill_bytes(&mut self, d: &mut [u8]) { for b in d.iter_mut() { *b = self.0; } }
    fn try_fill_bytes(&mut self, d: &mut [u8]) -> Result<(), rand_core::Error> { self.fill_bytes(d); Ok(()) }
}
impl rand_core::CryptoRng for ConstRng {}

fn fam_nonces(tag: &str, out: &mut Vec<Case>) {
    // C13 / C14: observable consequences through the public API
    let id = format!("{}:nonces:streams", tag);
    out.push((id, Box::new(move || {
        for &(bits, d, seeded) in &[(8usize, 1usize, false), (8, 3, false), (2, 1, true), (16, 3, true), (64, 2, true)] {
            let mk = |seed: u64| -> Result<Member, String> {
                let mut setup = ChaCha12Rng::seed_from_u64(99);     // same statement and witness in both runs
                let pc = create_pedersen_gens_with_extension_degree(deg(d));
                let params = RangeParameters::init(bits, 1, pc).map_err(|e| format!("{:?}", e))?;
                let r: Vec<Scalar> = (0..d).map(|_| Scalar::random(&mut setup)).collect();
                let c = params.pc_gens().commit(&Scalar::from(1u64), &r).map_err(|e| format!("{:?}", e))?;
                let sn = if seeded { Some(Scalar::random(&mut setup)) } else { None };
                let st = RangeStatement::init(params, vec![c], vec![None], sn).map_err(|e| format!("{:?}", e))?;
                let w = RangeWitness::init(vec![CommitmentOpening::new(1, r.clone())]).map_err(|e| format!("{:?}", e))?;
                let mut prng = ChaCha12Rng::seed_from_u64(seed);
                let proof = o_prove(&mut Transcript::new(b"ctx"), &st, &w, &mut prng).map_err(|e| format!("{:?}", e))?;
                Ok(Member { statement: st, proof, blindings: r, seeded })
            };
            let (p1, p2, p1b) = (mk(1)?, mk(2)?, mk(1)?);
            if p1.proof != p1b.proof { return Err("the same arguments and RNG stream gave different proofs".into()); }
            let (b1, b2) = (p1.proof.to_bytes(), p2.proof.to_bytes());
            let slot = |b: &Vec<u8>, k: usize| b[1 + 32 * k..1 + 32 * k + 32].to_vec();
            // layout: d1[0..d], A, A1, B, r1, s1, L/R...
            let names = [(d, "A"), (d + 1, "A1"), (d + 2, "B"), (d + 3, "r1"), (d + 4, "s1")];
            for (k, nm) in names {
                let same = slot(&b1, k) == slot(&b2, k);
                let must_differ = !seeded || nm != "A";
                if must_differ && same { return Err(format!("{} is identical in two proofs made with different RNG streams (bits {}, degree {}, seed {})", nm, bits, d, seeded)); }
            }
            if !seeded { for k in 0..d { if slot(&b1, k) == slot(&b2, k) { return Err(format!("d1[{}] identical in two unseeded proofs with different RNG streams", k)); } } }
        }
        Ok(())
    })));
    // C14: a constant external RNG must not make nonces independent of the witness: two openings of the SAME commitment
    // (degenerate generators G1 == G2) give proofs that differ in every prover message
    let id = format!("{}:nonces:hedged", tag);
    out.push((id, Box::new(move || {
        let mut setup = ChaCha12Rng::seed_from_u64(5);
        let mut pc = create_pedersen_gens_with_extension_degree(deg(3));
        pc.g_base_vec[2] = pc.g_base_vec[1]; pc.g_base_compressed_vec[2] = pc.g_base_compressed_vec[1];
        let params = RangeParameters::init(8, 1, pc).map_err(|e| format!("{:?}", e))?;
        let r: Vec<Scalar> = (0..3).map(|_| Scalar::random(&mut setup)).collect();
        let t = Scalar::from(11u64);
        let r2 = vec![r[0], r[1] + t, r[2] - t];
        let c = params.pc_gens().commit(&Scalar::from(7u64), &r).map_err(|e| format!("{:?}", e))?;
        if c != params.pc_gens().commit(&Scalar::from(7u64), &r2).map_err(|e| format!("{:?}", e))? { return Err("setup: openings do not share a commitment".into()); }
        let st = RangeStatement::init(params, vec![c], vec![None], None).map_err(|e| format!("{:?}", e))?;
        for fill in [0x55u8, 0xff, 0] {
            let run = |rv: &Vec<Scalar>| -> Result<Vec<u8>, String> {
                let w = RangeWitness::init(vec![CommitmentOpening::new(7, rv.clone())]).map_err(|e| format!("{:?}", e))?;
                let mut bad = ConstRng(fill);
                Ok(o_prove(&mut Transcript::new(b"ctx"), &st, &w, &mut bad).map_err(|e| format!("{:?}", e))?.to_bytes())
            };
            let (b1, b2) = (run(&r)?, run(&r2)?);
            if run(&r)? != b1 { return Err("identical runs are not reproducible under a constant RNG".into()); }
            for (k, nm) in [(3usize, "A"), (4, "A1"), (5, "B"), (6, "r1"), (7, "s1"), (8, "L0"), (9, "R0")] {
                if b1[1 + 32 * k..33 + 32 * k] == b2[1 + 32 * k..33 + 32 * k] { return Err(format!("with a constant external RNG ({:#x}) two different openings of one commitment share {}", fill, nm)); }
            }
        }
        Ok(())
    })));
}

// A minus its bit part: what remains is sum_k alpha_k * G'_k  (single commitment, known witness)
fn alpha_part(st: &RangeStatement<P>, proof: &RistrettoRangeProof, offset_value: u64) -> Result<P, String> {
    let bytes = proof.to_bytes();
    let d = bytes[0] as usize;
    let mut ab = [0u8; 32]; ab.copy_from_slice(&bytes[1 + 32 * d..33 + 32 * d]);
    let a = curve25519_dalek::ristretto::CompressedRistretto(ab).decompress().ok_or("A does not decompress")?;
    let n = st.generators.bit_length();
    let g: Vec<P> = st.generators.gi_base_iter().take(n).cloned().collect();
    let h: Vec<P> = st.generators.hi_base_iter().take(n).cloned().collect();
    let mut acc = a;
    for i in 0..n {
        let bit = if i < 64 { (offset_value >> i) & 1 } else { 0 };
        let al = Scalar::from(bit);
        acc -= g[i] * al + h[i] * (al - Scalar::ONE);
    }
    Ok(acc)
}

fn fam_alpha(tag: &str, out: &mut Vec<Case>) {
    // C13: the blinding components of A are distinct draws. With G'_2 = -G'_1 the blinding part of A is (alpha_1 - alpha_2) G'_1.
    let id = format!("{}:nonces:alpha-distinct", tag);
    out.push((id, Box::new(move || {
        let mut setup = ChaCha12Rng::seed_from_u64(17);
        for d in [2usize, 4] {
            let mut pc = create_pedersen_gens_with_extension_degree(deg(d));
            pc.g_base_vec[1] = -pc.g_base_vec[0]; pc.g_base_compressed_vec[1] = pc.g_base_vec[1].compress();
            for k in 2..d { pc.g_base_vec[k] = RistrettoPoint::identity() + pc.g_base_vec[0] * Scalar::from(0u64); pc.g_base_compressed_vec[k] = pc.g_base_vec[k].compress(); }
            if d > 2 { continue; }   // identity generators are refused by the transcript; only the degree-2 instance is usable
            let params = RangeParameters::init(8, 1, pc).map_err(|e| format!("{:?}", e))?;
            let r: Vec<Scalar> = (0..d).map(|_| Scalar::random(&mut setup)).collect();
            let v = 77u64;
            let c = params.pc_gens().commit(&Scalar::from(v), &r).map_err(|e| format!("{:?}", e))?;
            let st = RangeStatement::init(params, vec![c], vec![None], None).map_err(|e| format!("{:?}", e))?;
            let w = RangeWitness::init(vec![CommitmentOpening::new(v, r)]).map_err(|e| format!("{:?}", e))?;
            for seed in [1u64, 2, 3] {
                let mut prng = ChaCha12Rng::seed_from_u64(seed);
                let proof = o_prove(&mut Transcript::new(b"ctx"), &st, &w, &mut prng).map_err(|e| format!("{:?}", e))?;
                if alpha_part(&st, &proof, v)? == RistrettoPoint::identity() { return Err("two blinding components of A are the same nonce (alpha_1 == alpha_2)".into()); }
            }
        }
        Ok(())
    })));
    // C14: with a constant external RNG, two runs that differ only in a promise must not share the alpha nonces
    let id = format!("{}:nonces:alpha-hedged-by-statement", tag);
    out.push((id, Box::new(move || {
        let mut setup = ChaCha12Rng::seed_from_u64(23);
        let pc = create_pedersen_gens_with_extension_degree(deg(2));
        let params = RangeParameters::init(8, 1, pc).map_err(|e| format!("{:?}", e))?;
        let r: Vec<Scalar> = (0..2).map(|_| Scalar::random(&mut setup)).collect();
        let v = 200u64;
        let c = params.pc_gens().commit(&Scalar::from(v), &r).map_err(|e| format!("{:?}", e))?;
        let w = RangeWitness::init(vec![CommitmentOpening::new(v, r)]).map_err(|e| format!("{:?}", e))?;
        let run = |promise: Option<u64>| -> Result<P, String> {
            let st = RangeStatement::init(params.clone(), vec![c], vec![promise], None).map_err(|e| format!("{:?}", e))?;
            let mut bad = ConstRng(0x11);
            let proof = o_prove(&mut Transcript::new(b"ctx"), &st, &w, &mut bad).map_err(|e| format!("{:?}", e))?;
            alpha_part(&st, &proof, v - promise.unwrap_or(0))
        };
        let (p0, p1, p2) = (run(None)?, run(Some(5))?, run(Some(6))?);
        if p1 == p2 || p0 == p1 { return Err("with a constant external RNG two runs that differ only in a promise share the alpha nonces".into()); }
        if run(Some(0))? != p0 { return Err("an absent promise and Some(0) give different alpha nonces under the same RNG".into()); }
        Ok(())
    })));
}

fn families(prop: &str) -> Vec<Case> {
    let mut v: Vec<Case> = vec![];
    match prop {
        "C01" | "C12" => { if prop == "C12" { fam_gens(prop, &mut v); fam_batch(prop, &mut v); } fam_completeness(prop, &mut v); }
        "C02" | "C04" | "C05" => { fam_binding(prop, &mut v); fam_batch(prop, &mut v); if prop == "C05" { fam_panics(prop, &mut v); fam_codec(prop, &mut v); } if prop == "C02" { fam_modes(prop, &mut v); } fam_completeness(prop, &mut v); }
        "C03" | "C08" => { fam_batch(prop, &mut v); }
        "C06" | "C07" => { fam_prover(prop, &mut v); if prop == "C06" { fam_entry_point(prop, &mut v); } if prop == "C07" { fam_binding(prop, &mut v); fam_batch(prop, &mut v); } }
        "C09" | "C10" => { fam_modes(prop, &mut v); fam_completeness(prop, &mut v); fam_batch(prop, &mut v); fam_vectors(prop, &mut v); fam_fixed_seeds(prop, &mut v); }
        "C13" | "C14" => { fam_nonces(prop, &mut v); fam_alpha(prop, &mut v); fam_entry_point(prop, &mut v); if prop == "C13" { fam_vectors(prop, &mut v); } }
        "C11" => { fam_gens(prop, &mut v); }
        "C15" => { fam_codec(prop, &mut v); }
        "C16" => { fam_panics(prop, &mut v); fam_codec(prop, &mut v); fam_batch(prop, &mut v); }
        "C17" => { fam_ctors(prop, &mut v); }
        "C19" => { fam_vectors(prop, &mut v); }
        _ => {}
    }
    v
}

fn esc(s: &str) -> String { s.replace('\\', "\\\\").replace('"', "\\\"").replace('\n', " ") }

fn main() {
    let args: Vec<String> = std::env::args().collect();
    if args.len() >= 2 && args[1] == "gen-vectors" { match gen_vectors() { Ok(t) => { print!("{}", t); return; } Err(e) => { eprintln!("{}", e); std::process::exit(1); } } }
    if args.len() < 3 { eprintln!("usage: bpp-replay search <Cxx> | run <Cxx> <case-id> | fingerprint <Cxx> | gen-vectors"); std::process::exit(2); }
    std::panic::set_hook(Box::new(|_| {}));
    let prop = args[2].as_str();
    if args[1] == "fingerprint" {
        // digest of everything the crate returns on the directed inputs of this property, of completeness and of the prover matrix (fixed seeds)
        std::env::remove_var("VERIF_SEED");
        *OBS.lock().unwrap() = Some({ use digest::Digest; sha3::Sha3_256::new() });
        let mut n = 0usize;
        for fam in [prop, "C01", "C06", "C15", "C17"] {
            if fam != prop && [prop] == [fam] { continue; }
            for (id, f) in families(fam).iter() {
                n += 1;
                let r = catch_unwind(AssertUnwindSafe(|| f()));
                let verdict = match r { Ok(Ok(())) => "pass".to_string(), Ok(Err(_)) => "fail".to_string(), Err(_) => "panic".to_string() };
                obs(id, verdict.as_bytes());
            }
        }
        let d = { use digest::Digest; OBS.lock().unwrap().take().unwrap().finalize() };
        let hex: String = d.iter().map(|b| format!("{:02x}", b)).collect();
        println!("{{\"property\":\"{}\",\"fingerprint\":\"{}\",\"cases_run\":{}}}", prop, hex, n);
        return;
    }
    let cases = families(prop);
    let only: Option<&String> = if args[1] == "run" { args.get(3) } else { None };
    let mut n = 0usize;
    for (id, f) in cases.iter() {
        if let Some(o) = only { if o != id { continue; } }
        n += 1;
        let r = catch_unwind(AssertUnwindSafe(|| f()));
        let msg = match r { Ok(Ok(())) => None, Ok(Err(m)) => Some(m), Err(_) => Some("panic".to_string()) };
        if let Some(m) = msg {
            println!("{{\"property\":\"{}\",\"case\":\"{}\",\"failure\":\"{}\",\"cases_run\":{}}}", prop, esc(id), esc(&m), n);
            std::process::exit(1);
        }
    }
    println!("{{\"property\":\"{}\",\"case\":null,\"failure\":null,\"cases_run\":{}}}", prop, n);
}
